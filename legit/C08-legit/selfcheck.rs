// Self-check for property C08: ordering is the numeric order of the table and
// all_functions enumerates every table once, in increasing order, then stops.
// Public API only (the last test additionally uses the verif hooks when the
// `verif-hooks` feature is enabled).

use std::cmp::Ordering;
use volute::{Lut, Lut3, Lut4, Lut7, Lut8};

struct Rng(u64);
impl Rng {
    fn next(&mut self) -> u64 {
        self.0 ^= self.0 << 13;
        self.0 ^= self.0 >> 7;
        self.0 ^= self.0 << 17;
        self.0
    }
}

fn mask(n: usize) -> u64 {
    if n >= 6 {
        !0
    } else {
        (1u64 << (1 << n)) - 1
    }
}

/// Reference order: number of variables, then bits from the all-ones assignment down
fn ref_cmp(a: &Lut, b: &Lut) -> Ordering {
    if a.num_vars() != b.num_vars() {
        return a.num_vars().cmp(&b.num_vars());
    }
    for m in (0..a.num_bits()).rev() {
        match (a.value(m), b.value(m)) {
            (false, true) => return Ordering::Less,
            (true, false) => return Ordering::Greater,
            _ => (),
        }
    }
    Ordering::Equal
}

/// Tables that differ in a single word / a single bit, plus pseudo-random ones
fn samples(n: usize, rng: &mut Rng) -> Vec<Lut> {
    let mut ret = vec![Lut::zero(n), Lut::one(n)];
    let nb = ret[0].num_blocks();
    for v in 0..n {
        ret.push(Lut::nth_var(n, v));
    }
    for _ in 0..4 {
        let b: Vec<u64> = (0..nb).map(|_| rng.next() & mask(n)).collect();
        ret.push(Lut::from_blocks(n, &b));
        // Same table with one word changed, at every other position
        for w in (0..nb).step_by(std::cmp::max(1, nb / 3)) {
            let mut c = b.clone();
            c[w] = rng.next() & mask(n);
            ret.push(Lut::from_blocks(n, &c));
            let mut d = b.clone();
            d[w] ^= 1 << (rng.next() % std::cmp::min(64, 1 << n));
            ret.push(Lut::from_blocks(n, &d));
        }
    }
    ret
}

#[test]
fn order_is_numeric() {
    let mut rng = Rng(0x1234_5678_9abc_def1);
    let mut all = Vec::new();
    for n in 0..=12 {
        let s = samples(n, &mut rng);
        for a in &s {
            for b in &s {
                let o = a.cmp(b);
                assert_eq!(o, ref_cmp(a, b), "{a} vs {b}");
                assert_eq!(o == Ordering::Equal, a == b);
                assert_eq!(o, b.cmp(a).reverse());
                assert_eq!(Some(o), a.partial_cmp(b));
                assert_eq!(o, a.to_hex_string().cmp(&b.to_hex_string()));
            }
        }
        all.extend(s.into_iter().take(6));
    }
    // Different sizes and transitivity
    for a in &all {
        for b in &all {
            assert_eq!(a.cmp(b), ref_cmp(a, b));
            for c in &all {
                if a <= b && b <= c {
                    assert!(a <= c);
                }
            }
        }
    }
    // Sorting agrees with the reference order
    let mut s1 = all.clone();
    let mut s2 = all.clone();
    s1.sort();
    s2.sort_by(ref_cmp);
    assert_eq!(s1, s2);
}

#[test]
fn order_static() {
    let mut rng = Rng(0xfeed_beef_0bad_cafe);
    for _ in 0..200 {
        let b: Vec<u64> = (0..4).map(|_| rng.next()).collect();
        let mut c = b.clone();
        c[(rng.next() % 4) as usize] = rng.next();
        let (x, y) = (Lut8::from_blocks(&b), Lut8::from_blocks(&c));
        let (lx, ly) = (Lut::from(x), Lut::from(y));
        assert_eq!(x.cmp(&y), ref_cmp(&lx, &ly));
        assert_eq!(x.cmp(&y), y.cmp(&x).reverse());
        assert_eq!(x.cmp(&y) == Ordering::Equal, x == y);
        let (x, y) = (Lut7::from_blocks(&b[..2]), Lut7::from_blocks(&c[..2]));
        assert_eq!(x.cmp(&y), ref_cmp(&Lut::from(x), &Lut::from(y)));
        assert_eq!(x.cmp(&y), x.to_hex_string().cmp(&y.to_hex_string()));
    }
}

#[test]
fn all_functions_complete() {
    for n in 0..=4usize {
        let total = 1usize << (1 << n);
        let v: Vec<Lut> = Lut::all_functions(n).collect();
        assert_eq!(v.len(), total);
        for (i, l) in v.iter().enumerate() {
            assert_eq!(l.num_vars(), n);
            assert_eq!(l.blocks(), &[i as u64]);
            if i > 0 {
                assert!(v[i - 1] < *l);
            }
        }
        assert_eq!(v[0], Lut::zero(n));
        assert_eq!(v[total - 1], Lut::one(n));
        // Termination, and consistency of the other iterator methods
        let mut it = Lut::all_functions(n);
        for _ in 0..total {
            assert!(it.next().is_some());
        }
        assert!(it.next().is_none());
        assert!(it.next().is_none());
        let (lo, hi) = it.size_hint();
        assert!(lo == 0 && hi.map_or(true, |h| h == 0));
        assert_eq!(it.count(), 0);
        assert_eq!(Lut::all_functions(n).count(), total);
        assert_eq!(Lut::all_functions(n).last(), Some(Lut::one(n)));
        for k in [0, 1, total / 2, total - 1, total] {
            let mut it = Lut::all_functions(n);
            for _ in 0..k {
                it.next();
            }
            let (lo, hi) = it.size_hint();
            assert!(lo <= total - k && hi.map_or(true, |h| h >= total - k));
            assert_eq!(it.count(), total - k);
            assert_eq!(Lut::all_functions(n).skip(k).last().is_some(), k < total);
            assert_eq!(Lut::all_functions(n).nth(k).map(|l| l.blocks()[0]), v.get(k).map(|l| l.blocks()[0]));
        }
    }
    let v: Vec<Lut3> = Lut3::all_functions().collect();
    assert_eq!(v.len(), 256);
    assert!(v.iter().enumerate().all(|(i, l)| l.blocks() == [i as u64]));
    assert_eq!(Lut4::all_functions().count(), 65536);
    assert_eq!(Lut4::all_functions().last(), Some(Lut4::one()));
    assert_eq!(Lut3::all_functions().skip(255).collect::<Vec<_>>(), vec![Lut3::one()]);
}

#[test]
fn all_functions_prefix() {
    for n in 5..=9usize {
        let mut prev: Option<Lut> = None;
        let it = Lut::all_functions(n);
        let (lo, hi) = it.size_hint();
        // Any valid bound is accepted: there are at least 2^32 tables
        assert!(hi.map_or(true, |h| h >= lo && h as u64 >= 1 << 32));
        for (i, l) in it.take(70000).enumerate() {
            assert_eq!(l.blocks()[0], i as u64);
            assert!(l.blocks()[1..].iter().all(|&b| b == 0));
            if let Some(p) = &prev {
                assert!(*p < l);
            }
            prev = Some(l);
        }
    }
    assert!(Lut7::all_functions().take(1000).enumerate().all(|(i, l)| l.blocks() == [i as u64, 0]));
}

/// Successor steps from arbitrary tables, including carries across 64-bit words
#[cfg(feature = "verif-hooks")]
#[test]
fn successor_with_carries() {
    let mut rng = Rng(0x0123_4567_89ab_cdef);
    for n in 0..=9usize {
        let nb = Lut::zero(n).num_blocks();
        for round in 0..400 {
            // The low `k` words are all ones
            let k = round % (nb + 1);
            let mut b: Vec<u64> = (0..nb).map(|_| rng.next() & mask(n)).collect();
            for w in b.iter_mut().take(k) {
                *w = mask(n);
            }
            if round % 7 == 0 && k < nb {
                b[k] = mask(n) - 1;
            }
            // Reference: schoolbook increment
            let mut e = b.clone();
            let mut wrapped = true;
            for w in e.iter_mut() {
                let (s, c) = w.overflowing_add(1);
                *w = s & mask(n);
                if !(c || *w == 0) {
                    wrapped = false;
                    break;
                }
            }
            let start = Lut::from_blocks(n, &b);
            let mut l = start.clone();
            assert_eq!(l.verif_successor(), !wrapped);
            assert_eq!(l.blocks(), &e[..]);
            let mut it = Lut::verif_all_functions_from(&start);
            assert_eq!(it.next(), Some(start.clone()));
            if wrapped {
                assert_eq!(start, Lut::one(n));
                assert_eq!(it.next(), None);
                assert_eq!(it.next(), None);
            } else {
                let nx = it.next().unwrap();
                assert_eq!(nx, l);
                assert!(start < nx);
            }
            if n <= 3 {
                // Full tail of the enumeration: b+1 .. 2^(2^n)-1
                let it = Lut::verif_all_functions_from(&start);
                let tail: Vec<u64> = it.skip(1).map(|l| l.blocks()[0]).collect();
                assert_eq!(tail, (b[0] + 1..=mask(n)).collect::<Vec<u64>>());
                let it = Lut::verif_all_functions_from(&start);
                assert_eq!(it.count() as u64, mask(n) - b[0] + 1);
                let it = Lut::verif_all_functions_from(&start);
                assert_eq!(it.last(), Some(Lut::one(n)));
            }
        }
    }
}
