//! Self-check for property C01: every syntactic form of NOT / AND / OR / XOR on `Lut` and
//! `LutN` is the exact pointwise Boolean operation, leaves borrowed operands unchanged, and
//! all forms of one operator agree. Public API only; deterministic.

use volute::{
    Lut, Lut0, Lut1, Lut10, Lut11, Lut12, Lut2, Lut3, Lut4, Lut5, Lut6, Lut7, Lut8, Lut9,
};

/// splitmix64: deterministic pseudo-random stream
struct Rng(u64);
impl Rng {
    fn next(&mut self) -> u64 {
        self.0 = self.0.wrapping_add(0x9e37_79b9_7f4a_7c15);
        let mut z = self.0;
        z = (z ^ (z >> 30)).wrapping_mul(0xbf58_476d_1ce4_e5b9);
        z = (z ^ (z >> 27)).wrapping_mul(0x94d0_49bb_1331_11eb);
        z ^ (z >> 31)
    }
}

/// Truth table as a plain vector of bools, the reference model
fn model(n: usize, rng: &mut Rng, style: usize) -> Vec<bool> {
    let len = 1usize << n;
    (0..len)
        .map(|m| match style % 5 {
            0 => false,
            1 => true,
            2 => rng.next() & 1 != 0,
            3 => rng.next() & 7 == 0, // sparse
            _ => (m >> (n.saturating_sub(1))) & 1 != 0 || rng.next() & 3 == 0,
        })
        .collect()
}

/// Checks all forms for one pair; `$zero` builds the constant-zero table of the right type.
macro_rules! check_pair {
    ($zero:expr, $n:expr, $va:expr, $vb:expr) => {{
        let n: usize = $n;
        let va: &Vec<bool> = $va;
        let vb: &Vec<bool> = $vb;
        let mut a = $zero;
        let mut b = $zero;
        for m in 0..(1usize << n) {
            if va[m] {
                a.set_bit(m);
            }
            if vb[m] {
                b.set_bit(m);
            }
        }
        let a0 = a.clone();
        let b0 = b.clone();
        assert_eq!(a.num_vars(), n);

        // --- NOT ---
        let mut nots = vec![a.not(), !&a, !a.clone()];
        let mut t = a.clone();
        t.not_inplace();
        nots.push(t);
        // --- AND ---
        let mut ands = vec![
            a.and(&b),
            &a & &b,
            &a & b.clone(),
            a.clone() & &b,
            a.clone() & b.clone(),
        ];
        let mut t = a.clone();
        t.and_inplace(&b);
        ands.push(t);
        let mut t = a.clone();
        t &= &b;
        ands.push(t);
        let mut t = a.clone();
        t &= b.clone();
        ands.push(t);
        // --- OR ---
        let mut ors = vec![
            a.or(&b),
            &a | &b,
            &a | b.clone(),
            a.clone() | &b,
            a.clone() | b.clone(),
        ];
        let mut t = a.clone();
        t.or_inplace(&b);
        ors.push(t);
        let mut t = a.clone();
        t |= &b;
        ors.push(t);
        let mut t = a.clone();
        t |= b.clone();
        ors.push(t);
        // --- XOR ---
        let mut xors = vec![
            a.xor(&b),
            &a ^ &b,
            &a ^ b.clone(),
            a.clone() ^ &b,
            a.clone() ^ b.clone(),
        ];
        let mut t = a.clone();
        t.xor_inplace(&b);
        xors.push(t);
        let mut t = a.clone();
        t ^= &b;
        xors.push(t);
        let mut t = a.clone();
        t ^= b.clone();
        xors.push(t);

        // Borrowed operands unchanged
        assert_eq!(a, a0);
        assert_eq!(b, b0);

        // Pointwise semantics of every form, and arity of every result
        for m in 0..(1usize << n) {
            for r in &nots {
                assert_eq!(r.value(m), !va[m], "not n={} m={}", n, m);
            }
            for r in &ands {
                assert_eq!(r.value(m), va[m] & vb[m], "and n={} m={}", n, m);
            }
            for r in &ors {
                assert_eq!(r.value(m), va[m] | vb[m], "or n={} m={}", n, m);
            }
            for r in &xors {
                assert_eq!(r.value(m), va[m] ^ vb[m], "xor n={} m={}", n, m);
            }
        }
        // All forms of the same operator agree (as whole tables, Eq and blocks)
        for fam in [&nots, &ands, &ors, &xors] {
            for r in fam.iter() {
                assert_eq!(r.num_vars(), n);
                assert_eq!(r, &fam[0]);
                assert_eq!(r.blocks(), fam[0].blocks());
            }
        }
        // Results stay well-formed tables: double negation and complement laws
        assert_eq!(!&nots[0], a0);
        assert_eq!(&ands[0] | &xors[0], ors[0]);
        assert_eq!(&a0 & &nots[0], $zero);
    }};
}

/// Exhaustive over all pairs for n <= 3, then `samples` pseudo-random/structured pairs.
macro_rules! check_size {
    ($zero:expr, $n:expr, $samples:expr, $rng:expr) => {{
        let n: usize = $n;
        if n <= 3 {
            let len = 1usize << n;
            for fa in 0..(1usize << len) {
                for fb in 0..(1usize << len) {
                    let va: Vec<bool> = (0..len).map(|m| (fa >> m) & 1 != 0).collect();
                    let vb: Vec<bool> = (0..len).map(|m| (fb >> m) & 1 != 0).collect();
                    check_pair!($zero, n, &va, &vb);
                }
            }
        }
        for s in 0..$samples {
            let va = model(n, $rng, s);
            let vb = model(n, $rng, s / 5 + s);
            check_pair!($zero, n, &va, &vb);
        }
    }};
}

#[test]
fn dynamic_lut_all_forms() {
    let mut rng = Rng(0xC01);
    for n in 0..=14usize {
        let samples = if n <= 8 { 60 } else if n <= 11 { 25 } else { 10 };
        check_size!(Lut::zero(n), n, samples, &mut rng);
    }
}

#[test]
fn static_lut_all_forms() {
    let mut rng = Rng(0x5C01);
    check_size!(Lut0::zero(), 0, 30, &mut rng);
    check_size!(Lut1::zero(), 1, 30, &mut rng);
    check_size!(Lut2::zero(), 2, 30, &mut rng);
    check_size!(Lut3::zero(), 3, 30, &mut rng);
    check_size!(Lut4::zero(), 4, 60, &mut rng);
    check_size!(Lut5::zero(), 5, 60, &mut rng);
    check_size!(Lut6::zero(), 6, 60, &mut rng);
    check_size!(Lut7::zero(), 7, 60, &mut rng);
    check_size!(Lut8::zero(), 8, 60, &mut rng);
    check_size!(Lut9::zero(), 9, 25, &mut rng);
    check_size!(Lut10::zero(), 10, 25, &mut rng);
    check_size!(Lut11::zero(), 11, 25, &mut rng);
    check_size!(Lut12::zero(), 12, 10, &mut rng);
}

/// Tables built from raw blocks behave the same (block-level agreement with u64 arithmetic).
#[test]
fn block_level_agreement() {
    let mut rng = Rng(77);
    for n in 6..=14usize {
        let nb = 1usize << (n - 6);
        for _ in 0..20 {
            let ba: Vec<u64> = (0..nb).map(|_| rng.next()).collect();
            let bb: Vec<u64> = (0..nb).map(|_| rng.next()).collect();
            let a = Lut::from_blocks(n, &ba);
            let b = Lut::from_blocks(n, &bb);
            let and: Vec<u64> = ba.iter().zip(&bb).map(|(x, y)| x & y).collect();
            let or: Vec<u64> = ba.iter().zip(&bb).map(|(x, y)| x | y).collect();
            let xor: Vec<u64> = ba.iter().zip(&bb).map(|(x, y)| x ^ y).collect();
            let not: Vec<u64> = ba.iter().map(|x| !x).collect();
            assert_eq!((&a & &b).blocks(), &and[..]);
            assert_eq!((&a | b.clone()).blocks(), &or[..]);
            assert_eq!((a.clone() ^ &b).blocks(), &xor[..]);
            assert_eq!((!&a).blocks(), &not[..]);
            assert_eq!(a.blocks(), &ba[..]);
            assert_eq!(b.blocks(), &bb[..]);
        }
    }
}
