//! Self check for C10: fixed-size LutN and dynamic Lut behave identically, conversions are lossless.
//! Public API only. Every result is also compared with an independent model (a Vec<bool> truth table).

use std::cmp::Ordering;
use std::panic::{catch_unwind, AssertUnwindSafe};
use volute::{
    Lut, Lut0, Lut1, Lut10, Lut11, Lut12, Lut2, Lut3, Lut4, Lut5, Lut6, Lut7, Lut8, Lut9,
};

struct Rng(u64);
impl Rng {
    fn next(&mut self) -> u64 {
        self.0 = self.0.wrapping_add(0x9e37_79b9_7f4a_7c15);
        let mut z = self.0;
        z = (z ^ (z >> 30)).wrapping_mul(0xbf58_476d_1ce4_e5b9);
        z = (z ^ (z >> 27)).wrapping_mul(0x94d0_49bb_1331_11eb);
        z ^ (z >> 31)
    }
}

/// Blocks of sample functions of n variables (unused bits are zero)
fn sample_blocks(n: usize, count: usize, seed: u64) -> Vec<Vec<u64>> {
    let nb = if n <= 6 { 1 } else { 1usize << (n - 6) };
    let used = if n >= 6 { !0u64 } else { (1u64 << (1u32 << n)) - 1 };
    let mut rng = Rng(seed);
    let mut ret = vec![vec![0u64; nb], vec![used; nb]];
    // Tables that differ only in one block, to exercise the ordering
    for b in 0..nb {
        let mut t = vec![0u64; nb];
        t[b] = 1;
        ret.push(t.clone());
        t[b] = used;
        ret.push(t);
    }
    for _ in 0..count {
        let dense = rng.next() % 3;
        ret.push(
            (0..nb)
                .map(|_| match dense {
                    0 => rng.next() & used,
                    1 => rng.next() & rng.next() & rng.next() & used,
                    _ => (rng.next() | rng.next() | rng.next()) & used,
                })
                .collect(),
        );
    }
    ret
}

fn model(n: usize, blocks: &[u64]) -> Vec<bool> {
    (0..1usize << n).map(|m| (blocks[m >> 6] >> (m & 63)) & 1 == 1).collect()
}

/// Compare two truth tables as 2^n-bit integers, f(2^n - 1) being the most significant bit
fn model_cmp(a: &[bool], b: &[bool]) -> Ordering {
    a.iter().rev().cmp(b.iter().rev())
}

fn panics<F: FnOnce() -> R, R>(f: F) -> bool {
    catch_unwind(AssertUnwindSafe(f)).is_err()
}

macro_rules! check_function {
    ($t:ty, $n:expr, $blocks:expr) => {{
        let n: usize = $n;
        let blocks: &[u64] = $blocks;
        let s = <$t>::from_blocks(blocks);
        let d = Lut::from_blocks(n, blocks);
        let f = model(n, blocks);

        // Conversions: both directions, round trip
        let conv = Lut::from(s);
        assert_eq!(conv, d);
        assert_eq!(conv.num_vars(), n);
        assert_eq!(conv.blocks(), s.blocks());
        assert_eq!(<$t>::try_from(d.clone()), Ok(s));
        assert_eq!(<$t>::try_from(Lut::from(s)), Ok(s));
        assert_eq!(Lut::from(<$t>::try_from(d.clone()).unwrap()), d);

        // Values
        for m in 0..1usize << n {
            assert_eq!(s.get_bit(m), f[m]);
            assert_eq!(s.value(m), f[m]);
            assert_eq!(d.get_bit(m), f[m]);
        }

        // Complement
        assert_eq!(Lut::from(s.not()), d.not());
        assert_eq!(Lut::from(!s), !&d);
        assert_eq!(model(n, s.not().blocks()), f.iter().map(|b| !b).collect::<Vec<_>>());
        let mut t = s;
        t.not_inplace();
        assert_eq!(t, s.not());
        assert_eq!(t.not(), s);

        // Strings
        assert_eq!(s.to_string(), d.to_string());
        assert_eq!(s.to_hex_string(), d.to_hex_string());
        assert_eq!(s.to_bin_string(), d.to_bin_string());
        assert_eq!(format!("{:x}", s), format!("{:x}", d));
        assert_eq!(format!("{:b}", s), format!("{:b}", d));
        assert_eq!(<$t>::from_hex_string(&s.to_hex_string()), Ok(s));

        for i in 0..n {
            // Flip
            let fl = s.flip(i);
            assert_eq!(Lut::from(fl), d.flip(i));
            let expected: Vec<bool> = (0..1usize << n).map(|m| f[m ^ (1 << i)]).collect();
            assert_eq!(model(n, fl.blocks()), expected);
            let mut t = s;
            t.flip_inplace(i);
            assert_eq!(t, fl);
            assert_eq!(fl.flip(i), s);

            // Cofactors
            let (c0, c1) = s.cofactors(i);
            let (d0, d1) = d.cofactors(i);
            assert_eq!(Lut::from(c0), d0);
            assert_eq!(Lut::from(c1), d1);
            let e0: Vec<bool> = (0..1usize << n).map(|m| f[m & !(1 << i)]).collect();
            let e1: Vec<bool> = (0..1usize << n).map(|m| f[m | (1 << i)]).collect();
            assert_eq!(model(n, c0.blocks()), e0);
            assert_eq!(model(n, c1.blocks()), e1);
            assert_eq!(<$t>::from_cofactors(&c0, &c1, i), s);
            assert_eq!(Lut::from_cofactors(&d0, &d1, i), d);

            // Classifications that depend on the cofactors
            assert_eq!(s.top_decomposition(i), d.top_decomposition(i));
            assert_eq!(s.is_pos_unate(i), d.is_pos_unate(i));
            assert_eq!(s.is_neg_unate(i), d.is_neg_unate(i));
        }

        // Single bit updates
        for m in [0usize, 1, (1usize << n) / 2, (1usize << n) - 1] {
            if m < 1 << n {
                let (mut a, mut b) = (s, d.clone());
                a.set_bit(m);
                b.set_bit(m);
                assert_eq!(Lut::from(a), b);
                assert!(a.get_bit(m));
                a.unset_bit(m);
                b.unset_bit(m);
                assert_eq!(Lut::from(a), b);
                assert!(!a.get_bit(m));
                a.set_value(m, f[m]);
                assert_eq!(a, s);
            }
        }
        (s, d, f)
    }};
}

macro_rules! check_size {
    ($t:ty, $n:expr, $samples:expr) => {{
        let n: usize = $n;
        let mut all = Vec::new();
        for blocks in sample_blocks(n, $samples, 0xC10 + n as u64) {
            all.push(check_function!($t, n, &blocks));
        }

        // Ordering: same on both types, and equal to the comparison as 2^n-bit integers
        for (s1, d1, f1) in all.iter() {
            for (s2, d2, f2) in all.iter() {
                let expected = model_cmp(f1, f2);
                assert_eq!(s1.cmp(s2), expected);
                assert_eq!(d1.cmp(d2), expected);
                assert_eq!(s1.partial_cmp(s2), Some(expected));
                assert_eq!(s1 == s2, expected == Ordering::Equal);
            }
        }

        // Conversion from a Lut fails exactly when the number of variables differs
        for m in 0..=12usize {
            for l in [Lut::zero(m), Lut::one(m), Lut::parity(m)] {
                let r = <$t>::try_from(l.clone());
                if m == n {
                    assert_eq!(Lut::from(r.unwrap()), l);
                } else {
                    assert_eq!(r, Err(()));
                }
            }
        }

        // Invalid arguments are refused by both types
        let s = <$t>::parity();
        let d = Lut::parity(n);
        assert!(panics(|| s.get_bit(1 << n)) && panics(|| d.get_bit(1 << n)));
        assert!(panics(|| s.value(usize::MAX)) && panics(|| d.value(usize::MAX)));
        assert!(panics(|| s.flip(n)) && panics(|| d.flip(n)));
        assert!(panics(|| s.cofactors(n)) && panics(|| d.cofactors(n)));
        assert!(panics(|| s.flip(usize::MAX)) && panics(|| d.flip(usize::MAX)));
        assert!(panics(|| s.cofactors(64)) && panics(|| d.cofactors(64)));
        assert!(panics(|| s.clone().set_bit(1 << n)) && panics(|| d.clone().set_bit(1 << n)));

        // Enumeration of all functions: same sequence, counting up from zero
        let limit: usize = if n <= 4 { usize::MAX } else { 3000 };
        let mut it_s = <$t>::all_functions();
        let mut it_d = Lut::all_functions(n);
        let mut count: u64 = 0;
        let mut prev: Option<$t> = None;
        while (count as usize) < limit {
            let (a, b) = (it_s.next(), it_d.next());
            assert_eq!(a.is_some(), b.is_some());
            let (a, b) = match (a, b) {
                (Some(a), Some(b)) => (a, b),
                _ => break,
            };
            assert_eq!(Lut::from(a), b);
            assert_eq!(a.blocks()[0], count);
            assert!(a.blocks()[1..].iter().all(|w| *w == 0));
            if let Some(p) = prev {
                assert!(p < a);
            }
            prev = Some(a);
            count += 1;
        }
        if n <= 4 {
            assert_eq!(count, 1u64 << (1u32 << n));
            assert_eq!(prev, Some(<$t>::one()));
            assert!(it_s.next().is_none());
        }
    }};
}

#[test]
fn exhaustive_small_sizes() {
    // Every function of 0 to 3 variables
    for v in 0..2u64 {
        check_function!(Lut0, 0, &[v]);
    }
    for v in 0..4u64 {
        check_function!(Lut1, 1, &[v]);
    }
    for v in 0..16u64 {
        check_function!(Lut2, 2, &[v]);
    }
    for v in 0..256u64 {
        check_function!(Lut3, 3, &[v]);
    }
}

#[test]
fn exhaustive_four_variables() {
    for v in 0..65536u64 {
        let s = Lut4::from_blocks(&[v]);
        let d = Lut::from_blocks(4, &[v]);
        assert_eq!(Lut::from(s), d);
        assert_eq!(Lut4::try_from(d.clone()), Ok(s));
        assert_eq!(Lut::from(s.not()), d.not());
        assert_eq!(s.not().blocks()[0], !v & 0xffff);
        for i in 0..4 {
            assert_eq!(Lut::from(s.flip(i)), d.flip(i));
            let (c0, c1) = s.cofactors(i);
            let (d0, d1) = d.cofactors(i);
            assert_eq!((Lut::from(c0), Lut::from(c1)), (d0, d1));
            assert_eq!(Lut4::from_cofactors(&c0, &c1, i), s);
            for m in 0..16usize {
                assert_eq!(s.flip(i).get_bit(m), s.get_bit(m ^ (1 << i)));
                assert_eq!(c0.get_bit(m), s.get_bit(m & !(1 << i)));
                assert_eq!(c1.get_bit(m), s.get_bit(m | (1 << i)));
            }
        }
    }
}

#[test]
fn all_sizes() {
    check_size!(Lut0, 0, 4);
    check_size!(Lut1, 1, 8);
    check_size!(Lut2, 2, 16);
    check_size!(Lut3, 3, 40);
    check_size!(Lut4, 4, 40);
    check_size!(Lut5, 5, 40);
    check_size!(Lut6, 6, 40);
    check_size!(Lut7, 7, 30);
    check_size!(Lut8, 8, 20);
    check_size!(Lut9, 9, 12);
    check_size!(Lut10, 10, 8);
    check_size!(Lut11, 11, 5);
    check_size!(Lut12, 12, 3);
}

macro_rules! check_int {
    ($t:ty, $int:ty, $n:expr, $v:expr) => {{
        let v: $int = $v;
        let l = <$t>::from(v);
        for m in 0..1usize << $n {
            assert_eq!(l.get_bit(m), (v >> m) & 1 == 1);
        }
        assert_eq!(<$int>::from(l), v);
        assert_eq!(l.blocks(), &[v as u64]);
        assert_eq!(Lut::from(l), Lut::from_blocks($n, &[v as u64]));
        assert_eq!(<$t>::from(<$int>::from(l)), l);
        // Bijection on the other side: a Lut built bit by bit converts to the same integer
        let mut b = <$t>::zero();
        for m in 0..1usize << $n {
            b.set_value(m, (v >> m) & 1 == 1);
        }
        assert_eq!(b, l);
        assert_eq!(<$int>::from(b), v);
        assert_eq!(<$int>::from(!b), !v);
    }};
}

#[test]
fn integer_conversions() {
    for v in 0..=u8::MAX {
        check_int!(Lut3, u8, 3, v);
    }
    for v in 0..=u16::MAX {
        check_int!(Lut4, u16, 4, v);
    }
    let mut rng = Rng(0xC10);
    let mut words = vec![0u64, !0u64, 1, 1 << 31, 1 << 32, 1 << 63, 0xffff_ffff, 0xffff_ffff_0000_0000];
    for b in 0..64 {
        words.push(1u64 << b);
        words.push(!(1u64 << b));
    }
    for _ in 0..5000 {
        words.push(rng.next());
    }
    for w in words {
        check_int!(Lut5, u32, 5, w as u32);
        check_int!(Lut5, u32, 5, (w >> 32) as u32);
        check_int!(Lut6, u64, 6, w);
    }
}
