//! Self-check for property C12: cube algebra is semantic.
//! Public API only; independent of the order in which `Cube::all` yields cubes.

use std::collections::HashSet;
use volute::sop::Cube;
use volute::Lut;

/// Reference evaluation from the public literal lists
fn ref_value(c: &Cube, m: u32) -> bool {
    if c.is_zero() {
        return false;
    }
    c.pos_vars().all(|v| (m >> v) & 1 == 1) && c.neg_vars().all(|v| (m >> v) & 1 == 0)
}

/// All 3^n cubes over n variables, built through from_vars, plus the zero cube
fn ref_cubes(n: usize) -> Vec<Cube> {
    let mut ret = Vec::new();
    for code in 0..4usize.pow(n as u32) {
        let mut p = Vec::new();
        let mut q = Vec::new();
        let mut ok = true;
        for v in 0..n {
            match (code >> (2 * v)) & 3 {
                0 => (),
                1 => p.push(v),
                2 => q.push(v),
                _ => ok = false,
            }
        }
        if ok {
            ret.push(Cube::from_vars(&p, &q));
        }
    }
    ret
}

fn xorshift(s: &mut u64) -> u64 {
    *s ^= *s << 13;
    *s ^= *s >> 7;
    *s ^= *s << 17;
    *s
}

#[test]
fn all_enumerates_each_nonzero_cube_once() {
    for n in 0..=5 {
        let all: Vec<Cube> = Cube::all(n).collect();
        assert_eq!(all.len(), 3usize.pow(n as u32));
        let set: HashSet<Cube> = all.iter().copied().collect();
        assert_eq!(set.len(), all.len());
        assert!(all.iter().all(|c| !c.is_zero()));
        let reference: HashSet<Cube> = ref_cubes(n).into_iter().collect();
        assert_eq!(set, reference);
        for c in &all {
            assert!(c.pos_vars().chain(c.neg_vars()).all(|v| v < n));
        }
    }
}

#[test]
fn exhaustive_small() {
    for n in 0..=5usize {
        let mut cubes: Vec<Cube> = Cube::all(n).collect();
        cubes.push(Cube::zero());
        let nm = 1u32 << n;
        let sat: Vec<Vec<bool>> = cubes
            .iter()
            .map(|c| (0..nm).map(|m| c.value(m as usize)).collect())
            .collect();
        for (i, a) in cubes.iter().enumerate() {
            for m in 0..nm {
                assert_eq!(sat[i][m as usize], ref_value(a, m), "value {} {}", a, m);
            }
            let lits = a.pos_vars().count() + a.neg_vars().count();
            if a.is_zero() {
                assert_eq!(a.num_lits(), 0);
                assert_eq!(a.num_gates(), 0);
                assert!(sat[i].iter().all(|b| !b));
            } else {
                assert_eq!(a.num_lits(), lits);
                assert_eq!(a.num_gates(), lits.saturating_sub(1));
                assert_eq!(sat[i].iter().filter(|b| **b).count(), 1 << (n - lits));
                let p: Vec<usize> = a.pos_vars().collect();
                let q: Vec<usize> = a.neg_vars().collect();
                assert_eq!(Cube::from_vars(&p, &q), *a);
                let pm = p.iter().fold(0u32, |x, v| x | 1 << v);
                let qm = q.iter().fold(0u32, |x, v| x | 1 << v);
                assert_eq!(Cube::from_mask(pm, qm), *a);
            }
            for (j, b) in cubes.iter().enumerate() {
                let imp = (0..nm as usize).all(|m| !sat[i][m] || sat[j][m]);
                let int = (0..nm as usize).any(|m| sat[i][m] && sat[j][m]);
                assert_eq!(a.implies(*b), imp, "{} implies {}", a, b);
                assert_eq!(a.intersects(*b), int, "{} intersects {}", a, b);
                let c = *a & *b;
                for m in 0..nm as usize {
                    assert_eq!(c.value(m), sat[i][m] && sat[j][m]);
                }
                if !int {
                    assert_eq!(c, Cube::zero());
                }
                // Semantic equality is structural equality
                assert_eq!(a == b, sat[i] == sat[j]);
            }
        }
        for m in 0..nm as usize {
            let mt = Cube::minterm(n, m);
            for k in 0..nm as usize {
                assert_eq!(mt.value(k), k == m);
            }
            assert_eq!(mt.num_lits(), n);
        }
    }
}

#[test]
fn implies_lut_all_functions() {
    for n in 0..=4usize {
        let nm = 1usize << n;
        let mut cubes: Vec<Cube> = Cube::all(n).collect();
        cubes.push(Cube::zero());
        // Cubes with literals outside of the Lut's variables too
        cubes.push(Cube::nth_var(n));
        cubes.push(Cube::nth_var_inv(n));
        cubes.push(Cube::nth_var(n + 1) & Cube::nth_var_inv(0.max(n)));
        if n >= 1 {
            cubes.push(Cube::nth_var(n) & Cube::nth_var_inv(0));
            cubes.push(Cube::nth_var_inv(n + 2) & Cube::nth_var(0));
        }
        for bits in 0..(1u64 << nm) {
            let mut f = Lut::zero(n);
            for m in 0..nm {
                f.set_value(m, (bits >> m) & 1 == 1);
            }
            for c in &cubes {
                let exp = (0..nm).all(|m| !c.value(m) || f.value(m));
                assert_eq!(c.implies_lut(&f), exp, "{} implies_lut {}", c, f);
            }
        }
    }
}

#[test]
fn random_wide() {
    let mut s = 0x9e3779b97f4a7c15u64;
    for it in 0..20000 {
        let mut mk = |s: &mut u64| {
            let dens = xorshift(s);
            let mut p = xorshift(s) as u32;
            let mut q = xorshift(s) as u32;
            if dens & 1 == 0 {
                p &= xorshift(s) as u32;
                q &= xorshift(s) as u32;
            }
            if dens & 6 != 0 {
                q &= !p;
            }
            Cube::from_mask(p, q)
        };
        let a = mk(&mut s);
        let mut b = mk(&mut s);
        if it % 5 == 0 {
            // Make b a weakening of a
            let keep = xorshift(&mut s) as u32;
            let p = a.pos_vars().fold(0u32, |x, v| x | 1 << v) & keep;
            let q = a.neg_vars().fold(0u32, |x, v| x | 1 << v) & keep;
            b = if a.is_zero() { b } else { Cube::from_mask(p, q) };
        }
        let c = a & b;
        let structural_imp = a.is_zero()
            || (!b.is_zero()
                && b.pos_vars().all(|v| a.pos_vars().any(|w| w == v))
                && b.neg_vars().all(|v| a.neg_vars().any(|w| w == v)));
        let structural_int = !a.is_zero()
            && !b.is_zero()
            && a.pos_vars().all(|v| b.neg_vars().all(|w| w != v))
            && a.neg_vars().all(|v| b.pos_vars().all(|w| w != v));
        assert_eq!(a.implies(b), structural_imp);
        assert_eq!(a.intersects(b), structural_int);
        assert_eq!(c.is_zero(), !structural_int);
        if c.is_zero() {
            assert_eq!(c, Cube::zero());
        }
        for k in 0..16 {
            let mut m = xorshift(&mut s) as u32;
            if k % 2 == 0 && !a.is_zero() {
                // Force a satisfying assignment of a
                for v in a.pos_vars() {
                    m |= 1 << v;
                }
                for v in a.neg_vars() {
                    m &= !(1 << v);
                }
            }
            let va = a.value(m as usize);
            let vb = b.value(m as usize);
            assert_eq!(va, ref_value(&a, m));
            assert_eq!(vb, ref_value(&b, m));
            assert_eq!(c.value(m as usize), va && vb);
            if a.implies(b) {
                assert!(!va || vb);
            }
            if !a.intersects(b) {
                assert!(!(va && vb));
            }
        }
    }
}
