//! Self-check for property C03: flip / swap / cofactors / from_cofactors are exact,
//! for Lut (1..=14 variables) and LutN (1..=12), all index pairs, all storage regimes.
//! Public API only; deterministic (own xorshift generator).

use volute::{Lut, Lut1, Lut10, Lut11, Lut12, Lut2, Lut3, Lut4, Lut5, Lut6, Lut7, Lut8, Lut9};

struct Rng(u64);
impl Rng {
    fn next(&mut self) -> u64 {
        self.0 ^= self.0 << 13;
        self.0 ^= self.0 >> 7;
        self.0 ^= self.0 << 17;
        self.0.wrapping_mul(0x2545_f491_4f6c_dd1d)
    }
}

fn blocks_for(n: usize, rng: &mut Rng, kind: usize) -> Vec<u64> {
    let nb = if n <= 6 { 1 } else { 1usize << (n - 6) };
    let mask = if n >= 6 { !0u64 } else { (1u64 << (1 << n)) - 1 };
    (0..nb)
        .map(|_| {
            let r = match kind % 4 {
                0 => rng.next(),
                1 => rng.next() & rng.next() & rng.next(), // sparse
                2 => rng.next() | rng.next() | rng.next(), // dense
                _ => if rng.next() & 1 == 0 { 0 } else { !0 }, // word-constant
            };
            r & mask
        })
        .collect()
}

fn flip_bit(x: usize, i: usize) -> usize {
    x ^ (1 << i)
}
fn swap_bits(x: usize, i: usize, j: usize) -> usize {
    let bi = (x >> i) & 1;
    let bj = (x >> j) & 1;
    (x & !(1 << i) & !(1 << j)) | (bi << j) | (bj << i)
}

/// Representation must stay canonical: no garbage above 2^n bits
fn check_canonical(n: usize, blocks: &[u64]) {
    if n < 6 {
        assert_eq!(blocks.len(), 1);
        assert_eq!(blocks[0] >> (1 << n), 0, "garbage in unused bits, n={n}");
    } else {
        assert_eq!(blocks.len(), 1 << (n - 6));
    }
}

fn check_lut(f: &Lut, c0: &Lut, c1: &Lut) {
    let n = f.num_vars();
    let nbits = 1usize << n;
    for i in 0..n {
        // flip
        let g = f.flip(i);
        check_canonical(n, g.blocks());
        for x in 0..nbits {
            assert_eq!(g.value(x), f.value(flip_bit(x, i)), "flip n={n} i={i} x={x}");
        }
        let mut h = f.clone();
        h.flip_inplace(i);
        assert_eq!(g, h);
        assert_eq!(&g.flip(i), f);

        // swap
        for j in 0..n {
            let g = f.swap(i, j);
            check_canonical(n, g.blocks());
            for x in 0..nbits {
                assert_eq!(g.value(x), f.value(swap_bits(x, i, j)), "swap n={n} i={i} j={j} x={x}");
            }
            let mut h = f.clone();
            h.swap_inplace(i, j);
            assert_eq!(g, h);
            assert_eq!(g, f.swap(j, i));
            if j == i + 1 {
                let mut fm = f.clone();
                assert_eq!(fm.swap_adjacent(i), g);
                fm.swap_adjacent_inplace(i);
                assert_eq!(fm, g);
            }
        }

        // cofactors
        let (f0, f1) = f.cofactors(i);
        check_canonical(n, f0.blocks());
        check_canonical(n, f1.blocks());
        assert_eq!(f0.num_vars(), n);
        assert_eq!(f1.num_vars(), n);
        for x in 0..nbits {
            assert_eq!(f0.value(x), f.value(x & !(1 << i)), "cof0 n={n} i={i} x={x}");
            assert_eq!(f1.value(x), f.value(x | (1 << i)), "cof1 n={n} i={i} x={x}");
        }
        assert_eq!(f0, f0.flip(i));
        assert_eq!(f1, f1.flip(i));
        assert_eq!(&Lut::from_cofactors(&f0, &f1, i), f);

        // from_cofactors on arbitrary (possibly xi-dependent) operands
        let r = Lut::from_cofactors(c0, c1, i);
        check_canonical(n, r.blocks());
        for x in 0..nbits {
            let e = if (x >> i) & 1 == 0 { c0.value(x) } else { c1.value(x) };
            assert_eq!(r.value(x), e, "from_cofactors n={n} i={i} x={x}");
        }
    }
}

#[test]
fn lut_exhaustive_small() {
    for n in 1..=4usize {
        let all: Vec<Lut> = Lut::all_functions(n).collect();
        assert_eq!(all.len(), 1usize << (1 << n));
        for (k, f) in all.iter().enumerate() {
            let c0 = &all[(k * 7 + 3) % all.len()];
            let c1 = &all[(k * 13 + 5) % all.len()];
            check_lut(f, c0, c1);
        }
    }
    // all (c0, c1) pairs for n <= 3
    for n in 1..=3usize {
        let all: Vec<Lut> = Lut::all_functions(n).collect();
        for c0 in &all {
            for c1 in &all {
                for i in 0..n {
                    let r = Lut::from_cofactors(c0, c1, i);
                    for x in 0..(1usize << n) {
                        let e = if (x >> i) & 1 == 0 { c0.value(x) } else { c1.value(x) };
                        assert_eq!(r.value(x), e);
                    }
                }
            }
        }
    }
}

#[test]
fn lut_sampled_all_sizes() {
    let mut rng = Rng(0x9e37_79b9_7f4a_7c15);
    for n in 1..=14usize {
        let reps = if n <= 8 { 24 } else if n <= 11 { 8 } else { 4 };
        for k in 0..reps {
            let f = Lut::from_blocks(n, &blocks_for(n, &mut rng, k));
            let c0 = Lut::from_blocks(n, &blocks_for(n, &mut rng, k + 1));
            let c1 = Lut::from_blocks(n, &blocks_for(n, &mut rng, k + 2));
            check_lut(&f, &c0, &c1);
        }
        // structured functions
        for f in [Lut::zero(n), Lut::one(n), Lut::parity(n), Lut::majority(n)] {
            check_lut(&f, &Lut::nth_var(n, 0), &Lut::nth_var(n, n - 1));
        }
    }
}

macro_rules! static_check {
    ($name:ident, $ty:ty, $n:expr, $reps:expr) => {
        #[test]
        fn $name() {
            let n: usize = $n;
            let nbits = 1usize << n;
            let mut rng = Rng(0xdead_beef_0000_0001 + n as u64);
            for k in 0..$reps {
                let fb = blocks_for(n, &mut rng, k);
                let f = <$ty>::from_blocks(&fb);
                let c0 = <$ty>::from_blocks(&blocks_for(n, &mut rng, k + 1));
                let c1 = <$ty>::from_blocks(&blocks_for(n, &mut rng, k + 2));
                let fd = Lut::from_blocks(n, &fb);
                for i in 0..n {
                    let g = f.flip(i);
                    check_canonical(n, g.blocks());
                    for x in 0..nbits {
                        assert_eq!(g.value(x), f.value(flip_bit(x, i)));
                    }
                    let mut h = f;
                    h.flip_inplace(i);
                    assert_eq!(g, h);
                    assert_eq!(Lut::from(g), fd.flip(i));
                    for j in 0..n {
                        let g = f.swap(i, j);
                        check_canonical(n, g.blocks());
                        for x in 0..nbits {
                            assert_eq!(g.value(x), f.value(swap_bits(x, i, j)));
                        }
                        let mut h = f;
                        h.swap_inplace(i, j);
                        assert_eq!(g, h);
                        assert_eq!(Lut::from(g), fd.swap(i, j));
                        if j == i + 1 {
                            let mut fm = f;
                            assert_eq!(fm.swap_adjacent(i), g);
                            fm.swap_adjacent_inplace(i);
                            assert_eq!(fm, g);
                        }
                    }
                    let (f0, f1) = f.cofactors(i);
                    check_canonical(n, f0.blocks());
                    check_canonical(n, f1.blocks());
                    for x in 0..nbits {
                        assert_eq!(f0.value(x), f.value(x & !(1 << i)));
                        assert_eq!(f1.value(x), f.value(x | (1 << i)));
                    }
                    assert_eq!(<$ty>::from_cofactors(&f0, &f1, i), f);
                    let r = <$ty>::from_cofactors(&c0, &c1, i);
                    check_canonical(n, r.blocks());
                    for x in 0..nbits {
                        let e = if (x >> i) & 1 == 0 { c0.value(x) } else { c1.value(x) };
                        assert_eq!(r.value(x), e);
                    }
                }
            }
        }
    };
}

static_check!(static_1, Lut1, 1, 16);
static_check!(static_2, Lut2, 2, 32);
static_check!(static_3, Lut3, 3, 32);
static_check!(static_4, Lut4, 4, 32);
static_check!(static_5, Lut5, 5, 32);
static_check!(static_6, Lut6, 6, 32);
static_check!(static_7, Lut7, 7, 24);
static_check!(static_8, Lut8, 8, 16);
static_check!(static_9, Lut9, 9, 12);
static_check!(static_10, Lut10, 10, 8);
static_check!(static_11, Lut11, 11, 6);
static_check!(static_12, Lut12, 12, 4);
