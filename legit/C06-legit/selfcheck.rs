//! Self-check for property C06: top_decomposition / is_pos_unate / is_neg_unate against a
//! bit-by-bit oracle on the cofactors, through the public API only (Lut and LutN).

use volute::*;

/// Oracle: classification from the definition, reading values one at a time
fn oracle(n: usize, v: usize, val: &dyn Fn(usize) -> bool) -> (DecompositionType, bool, bool) {
    let (mut eq, mut c0_zero, mut c0_one, mut c1_zero, mut c1_one, mut opp) =
        (true, true, true, true, true, true);
    let (mut pos, mut neg) = (true, true);
    for m in 0..(1usize << n) {
        if m & (1 << v) != 0 {
            continue;
        }
        let a = val(m);
        let b = val(m | (1 << v));
        eq &= a == b;
        c0_zero &= !a;
        c0_one &= a;
        c1_zero &= !b;
        c1_one &= b;
        opp &= a != b;
        pos &= !a || b;
        neg &= !b || a;
    }
    let d = if eq {
        DecompositionType::Independent
    } else if c0_zero && c1_one {
        DecompositionType::Identity
    } else if c0_one && c1_zero {
        DecompositionType::Negation
    } else if c0_zero {
        DecompositionType::And
    } else if c1_one {
        DecompositionType::Or
    } else if c0_one {
        DecompositionType::Le
    } else if c1_zero {
        DecompositionType::Lt
    } else if opp {
        DecompositionType::Xor
    } else {
        DecompositionType::None
    };
    (d, pos, neg)
}

macro_rules! check_static {
    ($t:ty, $lut:expr, $v:expr, $exp:expr) => {{
        let s = <$t>::try_from($lut.clone()).unwrap();
        assert_eq!(s.top_decomposition($v), $exp.0, "static decomposition {} var {}", $lut, $v);
        assert_eq!(s.is_pos_unate($v), $exp.1, "static pos unate {} var {}", $lut, $v);
        assert_eq!(s.is_neg_unate($v), $exp.2, "static neg unate {} var {}", $lut, $v);
    }};
}

fn check(lut: &Lut) {
    let n = lut.num_vars();
    for v in 0..n {
        let exp = oracle(n, v, &|m| lut.value(m));
        assert_eq!(lut.top_decomposition(v), exp.0, "decomposition {} var {}", lut, v);
        assert_eq!(lut.is_pos_unate(v), exp.1, "pos unate {} var {}", lut, v);
        assert_eq!(lut.is_neg_unate(v), exp.2, "neg unate {} var {}", lut, v);
        match n {
            1 => check_static!(Lut1, lut, v, exp),
            2 => check_static!(Lut2, lut, v, exp),
            3 => check_static!(Lut3, lut, v, exp),
            4 => check_static!(Lut4, lut, v, exp),
            5 => check_static!(Lut5, lut, v, exp),
            6 => check_static!(Lut6, lut, v, exp),
            7 => check_static!(Lut7, lut, v, exp),
            8 => check_static!(Lut8, lut, v, exp),
            9 => check_static!(Lut9, lut, v, exp),
            10 => check_static!(Lut10, lut, v, exp),
            11 => check_static!(Lut11, lut, v, exp),
            12 => check_static!(Lut12, lut, v, exp),
            _ => unreachable!(),
        }
    }
}

struct Rng(u64);
impl Rng {
    fn next(&mut self) -> u64 {
        // splitmix64
        self.0 = self.0.wrapping_add(0x9e37_79b9_7f4a_7c15);
        let mut z = self.0;
        z = (z ^ (z >> 30)).wrapping_mul(0xbf58_476d_1ce4_e5b9);
        z = (z ^ (z >> 27)).wrapping_mul(0x94d0_49bb_1331_11eb);
        z ^ (z >> 31)
    }
    fn below(&mut self, k: usize) -> usize {
        (self.next() % k as u64) as usize
    }
}

/// A function of n variables that does not depend on variable v, of varying density
fn random_indep(rng: &mut Rng, n: usize, v: usize) -> Lut {
    let mut ret = Lut::zero(n);
    let density = [1u64, 8, 32, 56, 63][rng.below(5)];
    for m in 0..(1usize << n) {
        if m & (1 << v) == 0 && rng.next() % 64 < density {
            ret.set_bit(m);
            ret.set_bit(m | (1 << v));
        }
    }
    ret
}

#[test]
fn exhaustive_small() {
    for n in 1..=4 {
        for lut in Lut::all_functions(n) {
            check(&lut);
        }
    }
}

#[test]
fn structured_all_sizes() {
    let mut rng = Rng(0xC06);
    for n in 1..=12usize {
        let rounds = if n <= 8 { 200 } else { 40 };
        for _ in 0..rounds {
            let v = rng.below(n);
            let g = random_indep(&mut rng, n, v);
            let h = random_indep(&mut rng, n, v);
            let pool = [
                Lut::zero(n),
                Lut::one(n),
                g.clone(),
                g.not(),
                h.clone(),
                g.and(&h),
                g.or(&h),
            ];
            for c0 in pool.iter() {
                for c1 in pool.iter() {
                    let f = Lut::from_cofactors(c0, c1, v);
                    check(&f);
                    // Near miss: a single value changed
                    let mut f2 = f.clone();
                    let m = rng.below(1 << n);
                    f2.set_value(m, !f2.value(m));
                    check(&f2);
                }
            }
        }
    }
}

#[test]
fn named_functions() {
    for n in 1..=12usize {
        check(&Lut::zero(n));
        check(&Lut::one(n));
        check(&Lut::parity(n));
        check(&Lut::majority(n));
        for v in 0..n {
            check(&Lut::nth_var(n, v));
            check(&Lut::nth_var(n, v).not());
        }
        for k in 0..=n {
            check(&Lut::threshold(n, k));
            check(&Lut::equals(n, k));
        }
    }
}
