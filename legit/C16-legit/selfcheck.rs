//! Self-check for property C16: the text printed for Cube, Ecube, Sop, Esop and Soes is a
//! formula (x<i>, !, juxtaposition = AND, ^ = XOR, | = OR loosest, constants 0 and 1) that
//! denotes the same function as `value()`, variables are in increasing order inside a term,
//! and distinct cubes print distinct text. Public API only.

use std::collections::HashMap;
use volute::sop::{Cube, Ecube, Esop, Soes, Sop};

/// Parsed formula: OR of XOR of AND of literals. A literal is (var, inverted) or a constant.
#[derive(Debug, Clone, Copy)]
enum Lit {
    Var(usize, bool),
    Const(bool),
}
type Formula = Vec<Vec<Vec<Lit>>>;

struct Parser<'a> {
    s: &'a [u8],
    p: usize,
}

impl<'a> Parser<'a> {
    fn ws(&mut self) {
        while self.p < self.s.len() && self.s[self.p].is_ascii_whitespace() {
            self.p += 1;
        }
    }
    fn peek(&mut self) -> Option<u8> {
        self.ws();
        self.s.get(self.p).copied()
    }
    fn lit(&mut self) -> Lit {
        let mut inv = false;
        while self.peek() == Some(b'!') {
            inv = !inv;
            self.p += 1;
        }
        match self.peek() {
            Some(b'0') => {
                self.p += 1;
                Lit::Const(inv)
            }
            Some(b'1') => {
                self.p += 1;
                Lit::Const(!inv)
            }
            Some(b'x') => {
                self.p += 1;
                let st = self.p;
                while self.p < self.s.len() && self.s[self.p].is_ascii_digit() {
                    self.p += 1;
                }
                assert!(self.p > st, "variable without index");
                let v = std::str::from_utf8(&self.s[st..self.p]).unwrap().parse().unwrap();
                Lit::Var(v, inv)
            }
            o => panic!("unexpected {:?} at {} in {:?}", o, self.p, std::str::from_utf8(self.s)),
        }
    }
    fn and(&mut self) -> Vec<Lit> {
        let mut r = vec![self.lit()];
        while matches!(self.peek(), Some(b'!' | b'x' | b'0' | b'1')) {
            r.push(self.lit());
        }
        r
    }
    fn xor(&mut self) -> Vec<Vec<Lit>> {
        let mut r = vec![self.and()];
        while self.peek() == Some(b'^') {
            self.p += 1;
            r.push(self.and());
        }
        r
    }
    fn or(&mut self) -> Formula {
        let mut r = vec![self.xor()];
        while self.peek() == Some(b'|') {
            self.p += 1;
            r.push(self.xor());
        }
        assert_eq!(self.peek(), None, "trailing text in {:?}", std::str::from_utf8(self.s));
        r
    }
}

fn parse(s: &str) -> Formula {
    assert!(!s.trim().is_empty(), "empty text");
    Parser { s: s.as_bytes(), p: 0 }.or()
}

fn eval(f: &Formula, mask: usize) -> bool {
    f.iter().any(|x| {
        x.iter().fold(false, |acc, a| {
            acc ^ a.iter().all(|l| match *l {
                Lit::Var(v, inv) => ((mask >> v) & 1 != 0) != inv,
                Lit::Const(c) => c,
            })
        })
    })
}

fn vars_of(a: &[Lit]) -> Vec<usize> {
    a.iter().filter_map(|l| if let Lit::Var(v, _) = l { Some(*v) } else { None }).collect()
}

fn increasing(v: &[usize]) -> bool {
    v.windows(2).all(|w| w[0] < w[1])
}

/// Products (Cube, Sop, Esop): increasing inside every product
fn check_order_products(f: &Formula, s: &str, num_vars: usize) {
    for x in f {
        for a in x {
            let v = vars_of(a);
            assert!(increasing(&v), "order in {:?}", s);
            assert!(v.iter().all(|i| *i < num_vars), "index in {:?}", s);
        }
    }
}

/// Exclusive sums (Ecube, Soes): one literal per operand, increasing inside every sum
fn check_order_sums(f: &Formula, s: &str, num_vars: usize) {
    for x in f {
        let mut all = Vec::new();
        for a in x {
            let v = vars_of(a);
            assert!(v.len() <= 1, "product inside exclusive sum {:?}", s);
            all.extend(v);
        }
        assert!(increasing(&all), "order in {:?}", s);
        assert!(all.iter().all(|i| *i < num_vars), "index in {:?}", s);
    }
}

/// Masks to evaluate on: everything for small sizes, a deterministic sample otherwise
fn masks(num_vars: usize, rng: &mut Rng) -> Vec<usize> {
    if num_vars <= 12 {
        (0..1usize << num_vars).collect()
    } else {
        let all = (1usize << num_vars) - 1;
        let mut r = vec![0, all];
        for i in 0..num_vars {
            r.push(1 << i);
            r.push(all ^ (1 << i));
        }
        for _ in 0..400 {
            r.push(rng.next() as usize & all);
        }
        r
    }
}

struct Rng(u64);
impl Rng {
    fn next(&mut self) -> u64 {
        self.0 = self.0.wrapping_mul(6364136223846793005).wrapping_add(1442695040888963407);
        let x = self.0;
        (x ^ (x >> 29)).wrapping_mul(0xbf58476d1ce4e5b9) >> 16
    }
    fn below(&mut self, n: usize) -> usize {
        (self.next() % n as u64) as usize
    }
}

fn check_sop(s: &Sop, ms: &[usize]) {
    let t = s.to_string();
    let f = parse(&t);
    check_order_products(&f, &t, s.num_vars());
    assert!(f.iter().all(|x| x.len() == 1), "xor inside Sop text {:?}", t);
    for &m in ms {
        assert_eq!(eval(&f, m), s.value(m), "Sop {:?} printed {:?} at {:b}", s, t, m);
    }
}

fn check_esop(s: &Esop, ms: &[usize]) {
    let t = s.to_string();
    let f = parse(&t);
    check_order_products(&f, &t, s.num_vars());
    assert_eq!(f.len(), 1, "or inside Esop text {:?}", t);
    for &m in ms {
        assert_eq!(eval(&f, m), s.value(m), "Esop {:?} printed {:?} at {:b}", s, t, m);
    }
}

fn check_soes(s: &Soes, ms: &[usize]) {
    let t = s.to_string();
    let f = parse(&t);
    check_order_sums(&f, &t, s.num_vars());
    for &m in ms {
        assert_eq!(eval(&f, m), s.value(m), "Soes {:?} printed {:?} at {:b}", s, t, m);
    }
}

#[test]
fn cubes_exhaustive() {
    for n in 0..=4 {
        let mut seen: HashMap<String, Cube> = HashMap::new();
        for c in Cube::all(n).chain([Cube::zero()]) {
            let t = c.to_string();
            let f = parse(&t);
            check_order_products(&f, &t, n);
            assert!(f.len() == 1 && f[0].len() == 1, "not a product: {:?}", t);
            for m in 0..1usize << n {
                assert_eq!(eval(&f, m), c.value(m), "{:?} printed {:?}", c, t);
            }
            if let Some(o) = seen.insert(t.clone(), c) {
                assert_eq!(o, c, "same text {:?}", t);
            }
        }
        assert_eq!(seen.len(), 3usize.pow(n as u32) + 1);
    }
    assert_eq!(Cube::zero().to_string(), "0");
    assert_eq!(Cube::one().to_string(), "1");
}

#[test]
fn ecubes_exhaustive() {
    for n in 0..=4 {
        let mut seen: HashMap<String, Ecube> = HashMap::new();
        for c in Ecube::all(n) {
            let t = c.to_string();
            let f = parse(&t);
            check_order_sums(&f, &t, n);
            assert_eq!(f.len(), 1, "not an exclusive sum: {:?}", t);
            for m in 0..1usize << n {
                assert_eq!(eval(&f, m), c.value(m), "{:?} printed {:?}", c, t);
            }
            if let Some(o) = seen.insert(t.clone(), c) {
                assert_eq!(o, c, "same text {:?}", t);
            }
        }
        assert_eq!(seen.len(), 2 << n);
    }
}

#[test]
fn cubes_wide_distinct() {
    // Two-digit indices: x1x2 vs x12, x1x11 vs x11x1 ...
    let mut rng = Rng(16);
    let mut seen: HashMap<String, Cube> = HashMap::new();
    let mut eseen: HashMap<String, Ecube> = HashMap::new();
    for _ in 0..3000 {
        let n = 1 + rng.below(32);
        let keep = if n == 32 { !0u32 } else { (1u32 << n) - 1 };
        let (a, b) = (rng.next() as u32 & rng.next() as u32 & keep, rng.next() as u32 & keep);
        let c = Cube::from_mask(a, b & !a);
        let t = c.to_string();
        let f = parse(&t);
        check_order_products(&f, &t, 32);
        let e = Ecube::from_vars(&(0..32).filter(|i| (a >> i) & 1 != 0).collect::<Vec<_>>(), b & 1 != 0);
        let et = e.to_string();
        let ef = parse(&et);
        check_order_sums(&ef, &et, 32);
        for _ in 0..40 {
            // Assignments close to the cube, so that both values occur
            let mut m = (a as usize) | (rng.next() as usize & !(b as usize) & 0xffff_ffff);
            if rng.below(2) == 0 {
                m ^= 1 << rng.below(32);
            }
            assert_eq!(eval(&f, m), c.value(m), "{:?} printed {:?}", c, t);
            assert_eq!(eval(&ef, m), e.value(m), "{:?} printed {:?}", e, et);
        }
        if let Some(o) = seen.insert(t.clone(), c) {
            assert_eq!(o, c, "same text {:?}", t);
        }
        if let Some(o) = eseen.insert(et.clone(), e) {
            assert_eq!(o, e, "same text {:?}", et);
        }
    }
}

#[test]
fn forms_exhaustive() {
    let mut rng = Rng(1);
    for n in 0..=3usize {
        let ms = masks(n, &mut rng);
        let cubes: Vec<Cube> = Cube::all(n).collect();
        let ecubes: Vec<Ecube> = Ecube::all(n).collect();
        check_sop(&Sop::zero(n), &ms);
        check_sop(&Sop::one(n), &ms);
        check_esop(&Esop::zero(n), &ms);
        check_esop(&Esop::one(n), &ms);
        check_soes(&Soes::zero(n), &ms);
        check_soes(&Soes::one(n), &ms);
        for k in 0..=3u32 {
            for idx in 0..cubes.len().pow(k) {
                let mut i = idx;
                let mut v = Vec::new();
                for _ in 0..k {
                    v.push(cubes[i % cubes.len()]);
                    i /= cubes.len();
                }
                check_sop(&Sop::from_cubes(n, v.clone()), &ms);
                check_esop(&Esop::from_cubes(n, v), &ms);
            }
            for idx in 0..ecubes.len().pow(k) {
                let mut i = idx;
                let mut v = Vec::new();
                for _ in 0..k {
                    v.push(ecubes[i % ecubes.len()]);
                    i /= ecubes.len();
                }
                check_soes(&Soes::from_cubes(n, v), &ms);
            }
        }
    }
}

#[test]
fn forms_random_wide() {
    let mut rng = Rng(2024);
    for round in 0..600 {
        // Up to 12 variables with all assignments; 32 variables (zero cubes allowed) sampled
        let n = if round % 6 == 5 { 32 } else { 4 + rng.below(9) };
        let keep = if n == 32 { !0u32 } else { (1u32 << n) - 1 };
        let ms = masks(n, &mut rng);
        let k = rng.below(6);
        let mut cs: Vec<Cube> = Vec::new();
        let mut es: Vec<Ecube> = Vec::new();
        for _ in 0..k {
            let a = rng.next() as u32 & rng.next() as u32 & rng.next() as u32 & keep;
            let b = rng.next() as u32 & rng.next() as u32 & rng.next() as u32 & keep & !a;
            let mut c = Cube::from_mask(a, b);
            let vars: Vec<usize> = (0..32).filter(|i| ((a | b) >> i) & 1 != 0).collect();
            let mut e = Ecube::from_vars(&vars[..vars.len().min(rng.below(5))], rng.below(2) == 0);
            match rng.below(10) {
                0 => c = Cube::one(),
                1 if n == 32 => c = Cube::zero(),
                2 if !cs.is_empty() => {
                    c = cs[rng.below(cs.len())];
                    e = es[rng.below(es.len())];
                }
                3 if !cs.is_empty() => {
                    // a cube implying an earlier one, an exclusive cube complementing one
                    c = cs[rng.below(cs.len())] & c;
                    e = !es[rng.below(es.len())];
                }
                4 => e = Ecube::zero(),
                5 => e = Ecube::one(),
                _ => {}
            }
            if c.is_zero() && n != 32 {
                c = Cube::nth_var(0);
            }
            cs.push(c);
            es.push(e);
        }
        check_sop(&Sop::from_cubes(n, cs.clone()), &ms);
        check_esop(&Esop::from_cubes(n, cs), &ms);
        check_soes(&Soes::from_cubes(n, es), &ms);
    }
}

#[test]
fn forms_from_operators() {
    // Forms produced by the crate's own operators
    let mut rng = Rng(7);
    let n = 4;
    let ms = masks(n, &mut rng);
    for i in 0..n {
        for j in 0..n {
            let s = Sop::nth_var(n, i) | Sop::nth_var_inv(n, j);
            check_sop(&s, &ms);
            check_sop(&!&s, &ms);
            check_sop(&(&s & Sop::nth_var(n, (i + 1) % n)), &ms);
            let e = Esop::nth_var(n, i) ^ Esop::nth_var_inv(n, j);
            check_esop(&e, &ms);
            check_esop(&!&e, &ms);
            check_esop(&(&e ^ Esop::one(n)), &ms);
            check_soes(&(Soes::nth_var(n, i) | Soes::nth_var_inv(n, j)), &ms);
        }
    }
}
