//! Self-check for property C18: the MIP two-level optimizers return exact covers of minimum
//! gate cost. Public API only. Needs `--features optim-mip`.
//!
//! The reference minimum is computed by an exact dynamic program over the candidate terms
//! (one pass per term, state = what each output has covered / xored so far), independent of
//! the crate's model: it considers every cube / exclusive cube, without any pruning.
#![cfg(feature = "optim-mip")]

use volute::sop::optim::{optimize_esop_mip, optimize_sop_mip, optimize_sopes_mip};
use volute::sop::{Cube, Ecube, Esop, Soes, Sop};
use volute::Lut;

const INF: i64 = i64::MAX / 4;

fn lut_bits(l: &Lut) -> u32 {
    (0..l.num_bits()).fold(0, |m, b| m | ((l.value(b) as u32) << b))
}
fn lut_from(n: usize, bits: u32) -> Lut {
    let mut l = Lut::zero(n);
    for b in 0..(1usize << n) {
        if (bits >> b) & 1 != 0 {
            l.set_bit(b);
        }
    }
    l
}
fn cube_bits(n: usize, c: &Cube) -> u32 {
    (0..1usize << n).fold(0, |m, b| m | ((c.value(b) as u32) << b))
}
fn ecube_bits(n: usize, c: &Ecube) -> u32 {
    (0..1usize << n).fold(0, |m, b| m | ((c.value(b) as u32) << b))
}

/// Exact minimum: terms = (truth table, gate cost); `link` = cost of an OR/XOR gate;
/// `exclusive` selects XOR semantics (any term usable) versus OR semantics (implicants only)
fn reference(n: usize, fs: &[u32], terms: &[(u32, i64)], link: i64, exclusive: bool) -> i64 {
    let nb = 1usize << n;
    let k = fs.len();
    assert!(nb * k <= 16);
    let full = (1u32 << nb) - 1;
    let mut dp = vec![INF; 1 << (nb * k)];
    dp[0] = 0;
    for &(t, gates) in terms {
        let usable: Vec<usize> = (0..k).filter(|&j| exclusive || t & !fs[j] == 0).collect();
        if usable.is_empty() {
            continue;
        }
        let prev = dp.clone();
        for (s, &base) in prev.iter().enumerate() {
            if base >= INF {
                continue;
            }
            for sel in 1usize..(1 << usable.len()) {
                let mut s2 = s;
                for (p, &j) in usable.iter().enumerate() {
                    if (sel >> p) & 1 != 0 {
                        let cur = ((s >> (nb * j)) as u32) & full;
                        let nxt = if exclusive { cur ^ t } else { cur | t };
                        s2 = (s2 & !((full as usize) << (nb * j))) | ((nxt as usize) << (nb * j));
                    }
                }
                let c = base + gates + link * sel.count_ones() as i64;
                if c < dp[s2] {
                    dp[s2] = c;
                }
            }
        }
    }
    let target = (0..k).fold(0usize, |m, j| m | ((fs[j] as usize) << (nb * j)));
    let nonzero = fs.iter().filter(|&&f| f != 0).count() as i64;
    assert!(dp[target] < INF);
    dp[target] - link * nonzero
}

fn cube_terms(n: usize, and: i64) -> Vec<(u32, i64)> {
    Cube::all(n).map(|c| (cube_bits(n, &c), and * c.num_gates() as i64)).collect()
}
fn ecube_terms(n: usize, xor: i64) -> Vec<(u32, i64)> {
    Ecube::all(n)
        .filter(|e| !e.is_zero())
        .map(|e| (ecube_bits(n, &e), xor * e.num_gates() as i64))
        .collect()
}

fn distinct<T: Ord + Copy>(it: impl Iterator<Item = T>) -> Vec<T> {
    let mut v: Vec<T> = it.collect();
    v.sort();
    v.dedup();
    v
}

/// Cost of a Sop/Soes result as the property defines it; also checks exactness and implicants
fn cost_sopes(n: usize, fs: &[Lut], res: &[(Sop, Soes)], and: i64, xor: i64, or: i64) -> i64 {
    assert_eq!(res.len(), fs.len());
    let mut cost = 0;
    for ((sop, soes), f) in res.iter().zip(fs) {
        assert_eq!(sop.num_vars(), n);
        assert_eq!(soes.num_vars(), n);
        let fb = lut_bits(f);
        let mut acc = 0;
        for c in sop.cubes() {
            assert_eq!(cube_bits(n, c) & !fb, 0, "cube {c} is not an implicant of {f}");
            acc |= cube_bits(n, c);
        }
        for e in soes.cubes() {
            assert_eq!(ecube_bits(n, e) & !fb, 0, "term {e} is not an implicant of {f}");
            acc |= ecube_bits(n, e);
        }
        assert_eq!(acc, fb, "form does not denote {f}");
        for b in 0..f.num_bits() {
            assert_eq!(sop.value(b) || soes.value(b), f.value(b));
        }
        let terms = (sop.num_cubes() + soes.num_cubes()) as i64;
        cost += or * (terms - 1).max(0);
    }
    for c in distinct(res.iter().flat_map(|r| r.0.cubes().iter().copied())) {
        cost += and * c.num_gates() as i64;
    }
    for e in distinct(res.iter().flat_map(|r| r.1.cubes().iter().copied())) {
        cost += xor * e.num_gates() as i64;
    }
    cost
}

fn cost_esop(n: usize, fs: &[Lut], res: &[Esop], and: i64, xor: i64) -> i64 {
    assert_eq!(res.len(), fs.len());
    let mut cost = 0;
    for (esop, f) in res.iter().zip(fs) {
        assert_eq!(esop.num_vars(), n);
        let acc = esop.cubes().iter().fold(0, |m, c| m ^ cube_bits(n, c));
        assert_eq!(acc, lut_bits(f), "esop does not denote {f}");
        for b in 0..f.num_bits() {
            assert_eq!(esop.value(b), f.value(b));
        }
        cost += xor * (esop.num_cubes() as i64 - 1).max(0);
    }
    for c in distinct(res.iter().flat_map(|r| r.cubes().iter().copied())) {
        cost += and * c.num_gates() as i64;
    }
    cost
}

/// Check the three optimizers on one list of functions for the given cost triples
fn check_list(n: usize, bits: &[u32], triples: &[(i32, i32, i32)], exact: bool) {
    let fs: Vec<Lut> = bits.iter().map(|&b| lut_from(n, b)).collect();
    for &(and, xor, or) in triples {
        let (a, x, o) = (and as i64, xor as i64, or as i64);
        // Sop: only depends on (and, or)
        if xor == triples[0].1 {
            let res: Vec<(Sop, Soes)> = optimize_sop_mip(&fs, and, or)
                .into_iter()
                .map(|s| (s, Soes::zero(n)))
                .collect();
            let got = cost_sopes(n, &fs, &res, a, x, o);
            check_cost(n, bits, got, &cube_terms(n, a), o, false, exact, "sop");
        }
        // Sopes
        let res = optimize_sopes_mip(&fs, and, xor, or);
        let got = cost_sopes(n, &fs, &res, a, x, o);
        let mut terms = cube_terms(n, a);
        terms.extend(ecube_terms(n, x));
        check_cost(n, bits, got, &terms, o, false, exact, "sopes");
        // Esop: only depends on (and, xor)
        if or == triples[0].2 {
            let res = optimize_esop_mip(&fs, and, xor);
            let got = cost_esop(n, &fs, &res, a, x);
            check_cost(n, bits, got, &cube_terms(n, a), x, true, exact, "esop");
        }
    }
}

#[allow(clippy::too_many_arguments)]
fn check_cost(n: usize, bits: &[u32], got: i64, terms: &[(u32, i64)], link: i64, excl: bool, exact: bool, what: &str) {
    if exact {
        let want = reference(n, bits, terms, link, excl);
        assert_eq!(got, want, "{what}: n={n} functions={bits:x?}: cost {got}, minimum {want}");
    } else {
        // Too many states for the joint program: bracket with the single-output optima
        let singles: Vec<i64> = bits.iter().map(|&b| reference(n, &[b], terms, link, excl)).collect();
        assert!(got <= singles.iter().sum::<i64>(), "{what}: n={n} {bits:x?}: cost {got} above separate optima");
        assert!(got >= *singles.iter().max().unwrap(), "{what}: n={n} {bits:x?}: cost {got} below a single optimum");
    }
}

fn all_triples() -> Vec<(i32, i32, i32)> {
    let mut v = Vec::new();
    for a in 1..=3 {
        for x in 1..=3 {
            for o in 1..=3 {
                v.push((a, x, o));
            }
        }
    }
    v
}

struct Lcg(u64);
impl Lcg {
    fn next(&mut self) -> u32 {
        self.0 = self.0.wrapping_mul(6364136223846793005).wrapping_add(1442695040888963407);
        (self.0 >> 33) as u32
    }
}

#[test]
fn exhaustive_up_to_two_vars() {
    let triples = all_triples();
    for n in 0..=2usize {
        let nf = 1u32 << (1 << n);
        for f in 0..nf {
            check_list(n, &[f], &triples, true);
            for g in 0..nf {
                check_list(n, &[f, g], &triples, true);
            }
        }
    }
}

#[test]
fn all_single_functions_of_three_vars() {
    let triples = [(1, 1, 1), (1, 3, 1), (2, 1, 3), (3, 2, 1), (1, 2, 2), (2, 3, 3)];
    for f in 0..256u32 {
        check_list(3, &[f], &triples, true);
    }
}

#[test]
fn sampled_lists() {
    let mut rng = Lcg(0xC18);
    let triples = all_triples();
    for it in 0..16 {
        let t = [triples[rng.next() as usize % 27], triples[rng.next() as usize % 27]];
        // Two outputs of three variables, single outputs of four variables: exact reference
        check_list(3, &[rng.next() & 0xff, rng.next() & 0xff], &t[..1], true);
        check_list(4, &[rng.next() & 0xffff], &t[1..], true);
        // Two or three outputs of four variables: bracketed
        if it % 4 == 0 {
            let k = 2 + (rng.next() % 2) as usize;
            let fs: Vec<u32> = (0..k).map(|_| rng.next() & 0xffff).collect();
            check_list(4, &fs, &t[..1], false);
        }
    }
}

#[test]
fn documented_examples_keep_their_cost() {
    // Same cases as the crate's own unit tests, checked through the cost only
    let l = Lut::nth_var(5, 1) | (Lut::nth_var(5, 2) & !Lut::nth_var(5, 3));
    let r = optimize_sop_mip(&[l], 1, 1);
    assert_eq!((r[0].num_cubes(), r[0].num_lits()), (2, 3));
    let l = Lut::nth_var(5, 1) ^ Lut::nth_var(5, 2) ^ Lut::nth_var(5, 3);
    let r = optimize_sopes_mip(&[l], 1, 1, 1);
    assert_eq!((r[0].0.num_cubes(), r[0].1.num_cubes(), r[0].1.num_lits()), (0, 1, 3));
}
