//! Self-check for property C05: the (perm, mask) returned with a canonical form is a valid
//! certificate. Only validity is asserted, never which of several valid certificates is returned.
use volute::{Lut, Lut0, Lut1, Lut2, Lut3, Lut4, Lut5, Lut6, Lut7, Lut8};

#[derive(Clone, Copy, PartialEq, Debug)]
enum Kind {
    P,
    N,
    Npn,
}

/// Check the certificate: g(y) = f(x) ^ mask[n] with x[perm[i]] = y[i] ^ mask[i] must be c
fn check_cert(n: usize, f: &dyn Fn(usize) -> bool, c: &dyn Fn(usize) -> bool, perm: &[u8], mask: u32, kind: Kind, ctx: &str) {
    assert_eq!(perm.len(), n, "perm length {ctx}");
    let mut seen = vec![false; n];
    for &p in perm {
        assert!((p as usize) < n && !seen[p as usize], "not a permutation {perm:?} {ctx}");
        seen[p as usize] = true;
    }
    assert_eq!((mask as u64) >> (n + 1), 0, "mask bit above n: {mask:#x} {ctx}");
    if kind == Kind::P {
        assert_eq!(mask, 0, "P certificate complements {ctx}");
    }
    if kind == Kind::N {
        assert!(perm.iter().enumerate().all(|(i, &p)| p as usize == i), "N certificate permutes {ctx}");
    }
    let out = (mask >> n) & 1 != 0;
    for y in 0..1usize << n {
        let mut x = 0usize;
        for i in 0..n {
            let bit = ((y >> i) & 1) ^ ((mask as usize >> i) & 1);
            x |= bit << perm[i];
        }
        assert_eq!(f(x) ^ out, c(y), "certificate does not map f to c at y={y} perm={perm:?} mask={mask:#x} {ctx}");
    }
}

fn check_lut(f: &Lut) {
    let n = f.num_vars();
    let id: Vec<u8> = (0..n as u8).collect();
    let ctx = format!("Lut n={n} f={f}");
    let (c, perm) = f.p_canonization();
    check_cert(n, &|x| f.value(x), &|y| c.value(y), &perm, 0, Kind::P, &ctx);
    let (c, mask) = f.n_canonization();
    check_cert(n, &|x| f.value(x), &|y| c.value(y), &id, mask, Kind::N, &ctx);
    let (c, perm, mask) = f.npn_canonization();
    check_cert(n, &|x| f.value(x), &|y| c.value(y), &perm, mask, Kind::Npn, &ctx);
}

/// Check f, then each of its canonical forms (inputs that are their own representative)
fn check_lut_and_reprs(f: &Lut) {
    check_lut(f);
    let reprs = [f.p_canonization().0, f.n_canonization().0, f.npn_canonization().0];
    for (k, r) in reprs.iter().enumerate() {
        check_lut(r);
        // Canonization is idempotent, whatever the certificate
        let again = [r.p_canonization().0, r.n_canonization().0, r.npn_canonization().0];
        assert_eq!(&again[k], r, "representative is not canonical");
    }
}

macro_rules! check_static {
    ($t:ty, $n:expr, $f:expr) => {{
        let f: &Lut = $f;
        let n: usize = $n;
        let s = <$t>::from_blocks(f.blocks());
        let id: Vec<u8> = (0..n as u8).collect();
        let ctx = format!("StaticLut n={n} f={f}");
        let (c, perm) = s.p_canonization();
        check_cert(n, &|x| s.value(x), &|y| c.value(y), &perm, 0, Kind::P, &ctx);
        assert_eq!(c.blocks(), f.p_canonization().0.blocks(), "Lut/LutN forms differ {ctx}");
        let (c, mask) = s.n_canonization();
        check_cert(n, &|x| s.value(x), &|y| c.value(y), &id, mask, Kind::N, &ctx);
        assert_eq!(c.blocks(), f.n_canonization().0.blocks(), "Lut/LutN forms differ {ctx}");
        let (c, perm, mask) = s.npn_canonization();
        check_cert(n, &|x| s.value(x), &|y| c.value(y), &perm, mask, Kind::Npn, &ctx);
        assert_eq!(c.blocks(), f.npn_canonization().0.blocks(), "Lut/LutN forms differ {ctx}");
    }};
}

fn check_static_any(f: &Lut) {
    match f.num_vars() {
        0 => check_static!(Lut0, 0, f),
        1 => check_static!(Lut1, 1, f),
        2 => check_static!(Lut2, 2, f),
        3 => check_static!(Lut3, 3, f),
        4 => check_static!(Lut4, 4, f),
        5 => check_static!(Lut5, 5, f),
        6 => check_static!(Lut6, 6, f),
        7 => check_static!(Lut7, 7, f),
        8 => check_static!(Lut8, 8, f),
        _ => unreachable!(),
    }
}

fn lut_from_fn(n: usize, f: impl Fn(usize) -> bool) -> Lut {
    let mut l = Lut::zero(n);
    for x in 0..1usize << n {
        l.set_value(x, f(x));
    }
    l
}

struct Rng(u64);
impl Rng {
    fn next(&mut self) -> u64 {
        // splitmix64
        self.0 = self.0.wrapping_add(0x9E3779B97F4A7C15);
        let mut z = self.0;
        z = (z ^ (z >> 30)).wrapping_mul(0xBF58476D1CE4E5B9);
        z = (z ^ (z >> 27)).wrapping_mul(0x94D049BB133111EB);
        z ^ (z >> 31)
    }
}

/// Functions with non-trivial symmetry groups
fn symmetric_functions(n: usize, rng: &mut Rng) -> Vec<Lut> {
    let mut v = vec![Lut::zero(n), Lut::zero(n).not(), Lut::parity(n), Lut::majority(n)];
    for k in 0..=n + 1 {
        v.push(Lut::threshold(n, k));
    }
    for i in 0..n {
        v.push(Lut::nth_var(n, i));
        v.push(Lut::nth_var(n, i).not());
    }
    // Totally symmetric functions with a random value vector; functions of the weight of
    // two blocks of variables; self-dual-ish functions f(x) = g(x) ^ g(!x)
    for _ in 0..4 {
        let vv = rng.next();
        v.push(lut_from_fn(n, |x| (vv >> x.count_ones()) & 1 != 0));
        let h = n / 2;
        let w = rng.next();
        v.push(lut_from_fn(n, |x| {
            let lo = (x & ((1 << h) - 1)).count_ones();
            let hi = (x >> h).count_ones();
            (w >> (lo * 7 + hi)) & 1 != 0
        }));
        let words: Vec<u64> = (0..4).map(|_| rng.next()).collect();
        let g = move |x: usize| (words[(x >> 6) & 3] >> (x & 63)) & 1 != 0;
        let full = (1usize << n) - 1;
        v.push(lut_from_fn(n, |x| g(x) ^ g(x ^ full)));
        // Does not depend on the upper half of the variables
        v.push(lut_from_fn(n, |x| g(x & ((1 << h) - 1))));
    }
    v
}

#[test]
fn exhaustive_up_to_4() {
    for n in 0..=4usize {
        for t in 0..1u64 << (1 << n) {
            let f = lut_from_fn(n, |x| (t >> x) & 1 != 0);
            check_lut(&f);
            check_static_any(&f);
        }
    }
}

#[test]
fn symmetric_and_canonical_5_6() {
    let mut rng = Rng(5);
    for n in 0..=6usize {
        for f in symmetric_functions(n, &mut rng) {
            check_lut_and_reprs(&f);
            check_static_any(&f);
        }
        for _ in 0..40 {
            let w = rng.next();
            let f = lut_from_fn(n, |x| (w >> (x & 63)) & 1 != 0);
            check_lut_and_reprs(&f);
            check_static_any(&f);
        }
    }
}

#[test]
fn large_7_8() {
    let mut rng = Rng(78);
    for n in 7..=8usize {
        let mut fs = vec![Lut::parity(n), Lut::majority(n), Lut::nth_var(n, n - 2), Lut::threshold(n, 2).not()];
        let sym = symmetric_functions(n, &mut rng);
        fs.push(sym[sym.len() - 3].clone());
        fs.push(sym[sym.len() - 1].clone());
        let words: Vec<u64> = (0..4).map(|_| rng.next()).collect();
        fs.push(lut_from_fn(n, |x| (words[(x >> 6) & 3] >> (x & 63)) & 1 != 0));
        for f in fs.iter() {
            // P and N for everything (cheap); NPN below for a few
            let id: Vec<u8> = (0..n as u8).collect();
            let ctx = format!("Lut n={n} f={f}");
            let (c, perm) = f.p_canonization();
            check_cert(n, &|x| f.value(x), &|y| c.value(y), &perm, 0, Kind::P, &ctx);
            check_lut_p_n_static(f);
            let (c2, perm2) = c.p_canonization();
            assert_eq!(c2, c);
            check_cert(n, &|x| c.value(x), &|y| c2.value(y), &perm2, 0, Kind::P, &ctx);
            let (c, mask) = f.n_canonization();
            check_cert(n, &|x| f.value(x), &|y| c.value(y), &id, mask, Kind::N, &ctx);
            let (c2, mask2) = c.n_canonization();
            assert_eq!(c2, c);
            check_cert(n, &|x| c.value(x), &|y| c2.value(y), &id, mask2, Kind::N, &ctx);
        }
        let take = if n == 7 { fs.len() } else { 3 };
        for f in fs.iter().rev().take(take) {
            let ctx = format!("Lut n={n} f={f}");
            let (c, perm, mask) = f.npn_canonization();
            check_cert(n, &|x| f.value(x), &|y| c.value(y), &perm, mask, Kind::Npn, &ctx);
            // Already canonical input
            let (c2, perm2, mask2) = c.npn_canonization();
            assert_eq!(c2, c);
            check_cert(n, &|x| c.value(x), &|y| c2.value(y), &perm2, mask2, Kind::Npn, &ctx);
        }
        check_static_any(&fs[0]);
    }
}

fn check_lut_p_n_static(f: &Lut) {
    let n = f.num_vars();
    let id: Vec<u8> = (0..n as u8).collect();
    let ctx = format!("StaticLut n={n} f={f}");
    if n == 7 {
        let s = Lut7::from_blocks(f.blocks());
        let (c, perm) = s.p_canonization();
        check_cert(n, &|x| s.value(x), &|y| c.value(y), &perm, 0, Kind::P, &ctx);
        let (c, mask) = s.n_canonization();
        check_cert(n, &|x| s.value(x), &|y| c.value(y), &id, mask, Kind::N, &ctx);
    } else {
        let s = Lut8::from_blocks(f.blocks());
        let (c, perm) = s.p_canonization();
        check_cert(n, &|x| s.value(x), &|y| c.value(y), &perm, 0, Kind::P, &ctx);
        let (c, mask) = s.n_canonization();
        check_cert(n, &|x| s.value(x), &|y| c.value(y), &id, mask, Kind::N, &ctx);
    }
}
