//! Self check for property C11: named constructors build the functions their names denote.
//! Public API only; passes with and without the change of the constructor kernels.

use volute::*;

const BIG_KS: [usize; 4] = [63, 64, 65, usize::MAX];

fn pc(m: usize) -> usize {
    m.count_ones() as usize
}

/// Count masks to try for n variables: exhaustive on the meaningful bits for small n, a
/// deterministic sample otherwise; each one also with garbage in the unconstrained high bits
fn count_masks(n: usize) -> Vec<usize> {
    let mut base: Vec<usize> = Vec::new();
    if n <= 7 {
        base.extend(0..(1usize << (n + 1)));
    } else {
        base.push(0);
        base.push(usize::MAX);
        for k in 0..=n {
            base.push(1 << k);
            base.push(!(1usize << k));
            base.push(usize::MAX << k);
        }
        let mut x: u64 = 0x9e37_79b9_7f4a_7c15 ^ n as u64;
        for _ in 0..40 {
            x = x.wrapping_mul(6364136223846793005).wrapping_add(1442695040888963407);
            base.push((x >> 7) as usize);
        }
    }
    let low = if n + 1 >= usize::BITS as usize { usize::MAX } else { (1usize << (n + 1)) - 1 };
    let mut ret = Vec::new();
    for c in base {
        ret.push(c);
        ret.push((c & low) | !low);
        ret.push((c & low) | (0xa5a5_a5a5_a5a5_a5a5u64 as usize & !low));
    }
    ret
}

/// Expected values, as predicates on the assignment m
fn check_table(n: usize, what: &str, blocks: &[u64], get: &dyn Fn(usize) -> bool, exp: &dyn Fn(usize) -> bool) {
    for m in 0..(1usize << n) {
        assert_eq!(get(m), exp(m), "{} n={} m={:#x}", what, n, m);
    }
    // The padding of small tables stays clear (needed for == to mean function equality)
    if n < 6 {
        assert_eq!(blocks[0] >> (1 << n), 0, "{} n={} padding", what, n);
    }
    assert_eq!(blocks.len(), if n <= 6 { 1 } else { 1 << (n - 6) });
}

macro_rules! check_all {
    ($n:expr, $ctor:expr, $what:expr, $exp:expr) => {{
        let f = $ctor;
        check_table($n, $what, f.blocks(), &|m| f.value(m), &$exp);
        f
    }};
}

fn check_dynamic(n: usize) {
    check_all!(n, Lut::zero(n), "zero", |_| false);
    check_all!(n, Lut::one(n), "one", |_| true);
    for i in 0..n {
        check_all!(n, Lut::nth_var(n, i), "nth_var", |m| (m >> i) & 1 != 0);
    }
    check_all!(n, Lut::parity(n), "parity", |m| pc(m) % 2 == 1);
    let maj = check_all!(n, Lut::majority(n), "majority", |m| pc(m) >= (n + 1) / 2);
    assert_eq!(maj, Lut::threshold(n, (n + 1) / 2));
    let ks: Vec<usize> = (0..=n + 2).chain(BIG_KS).collect();
    for &k in &ks {
        let e = check_all!(n, Lut::equals(n, k), "equals", |m| pc(m) == k);
        let t = check_all!(n, Lut::threshold(n, k), "threshold", |m| pc(m) >= k);
        if k > n {
            assert_eq!(e, Lut::zero(n));
            assert_eq!(t, Lut::zero(n));
        }
    }
    assert_eq!(Lut::threshold(n, 0), Lut::one(n));
    for c in count_masks(n) {
        check_all!(n, Lut::symmetric(n, c), "symmetric", |m| (c >> pc(m)) & 1 != 0);
    }
}

macro_rules! check_static {
    ($t:ty, $n:expr) => {{
        let n: usize = $n;
        check_all!(n, <$t>::zero(), "LutN zero", |_| false);
        check_all!(n, <$t>::default(), "LutN default", |_| false);
        check_all!(n, <$t>::one(), "LutN one", |_| true);
        for i in 0..n {
            check_all!(n, <$t>::nth_var(i), "LutN nth_var", |m| (m >> i) & 1 != 0);
        }
        check_all!(n, <$t>::parity(), "LutN parity", |m| pc(m) % 2 == 1);
        let maj = check_all!(n, <$t>::majority(), "LutN majority", |m| pc(m) >= (n + 1) / 2);
        assert_eq!(maj, <$t>::threshold((n + 1) / 2));
        let ks: Vec<usize> = (0..=n + 2).chain(BIG_KS).collect();
        for &k in &ks {
            let e = check_all!(n, <$t>::equals(k), "LutN equals", |m| pc(m) == k);
            let t = check_all!(n, <$t>::threshold(k), "LutN threshold", |m| pc(m) >= k);
            if k > n {
                assert_eq!(e, <$t>::zero());
                assert_eq!(t, <$t>::zero());
            }
            // Both families agree
            assert_eq!(Lut::from(e), Lut::equals(n, k));
            assert_eq!(Lut::from(t), Lut::threshold(n, k));
        }
        assert_eq!(<$t>::threshold(0), <$t>::one());
        for c in count_masks(n) {
            let s = check_all!(n, <$t>::symmetric(c), "LutN symmetric", |m| (c >> pc(m)) & 1 != 0);
            assert_eq!(s.blocks(), Lut::symmetric(n, c).blocks());
        }
    }};
}

#[test]
fn dynamic_constructors() {
    for n in 0..=14 {
        check_dynamic(n);
    }
    let d = Lut::default();
    assert_eq!(d.num_vars(), 0);
    assert_eq!(d, Lut::zero(0));
    assert!(!d.value(0));
}

#[test]
fn static_constructors() {
    check_static!(Lut0, 0);
    check_static!(Lut1, 1);
    check_static!(Lut2, 2);
    check_static!(Lut3, 3);
    check_static!(Lut4, 4);
    check_static!(Lut5, 5);
    check_static!(Lut6, 6);
    check_static!(Lut7, 7);
    check_static!(Lut8, 8);
    check_static!(Lut9, 9);
    check_static!(Lut10, 10);
    check_static!(Lut11, 11);
    check_static!(Lut12, 12);
}
