//! Self-check for property C17: invalid indices / size mismatches are refused by a panic in
//! every build profile, and valid arguments give the (model-defined) right answer without
//! panicking. Run it both with `cargo test` and `cargo test --release`: since every result on
//! valid arguments is compared with an independent bit-level model, passing in both profiles
//! implies that both profiles return identical results.
//!
//! Public API only. Nothing here depends on panic messages or on where the check is made.

use std::panic::{catch_unwind, AssertUnwindSafe};
use volute::{DecompositionType, Lut};
use volute::{Lut0, Lut1, Lut2, Lut3, Lut4, Lut5, Lut6, Lut7, Lut8};

/// True if the closure panicked (its value, if any, is dropped)
fn refused<R, F: FnOnce() -> R>(f: F) -> bool {
    catch_unwind(AssertUnwindSafe(f)).is_err()
}

struct Rng(u64);
impl Rng {
    fn next(&mut self) -> u64 {
        // splitmix64
        self.0 = self.0.wrapping_add(0x9e3779b97f4a7c15);
        let mut z = self.0;
        z = (z ^ (z >> 30)).wrapping_mul(0xbf58476d1ce4e5b9);
        z = (z ^ (z >> 27)).wrapping_mul(0x94d049bb133111eb);
        z ^ (z >> 31)
    }
}

type Model = Vec<bool>;

fn lut_of(n: usize, m: &Model) -> Lut {
    let mut l = Lut::zero(n);
    for (i, b) in m.iter().enumerate() {
        l.set_value(i, *b);
    }
    l
}

fn model_of(l: &Lut) -> Model {
    (0..l.num_bits()).map(|i| l.value(i)).collect()
}

fn swap_bits(x: usize, i: usize, j: usize) -> usize {
    let bi = (x >> i) & 1;
    let bj = (x >> j) & 1;
    (x & !(1 << i) & !(1 << j)) | (bi << j) | (bj << i)
}

fn model_decomposition(m: &Model, v: usize) -> (DecompositionType, bool, bool) {
    let lows: Vec<usize> = (0..m.len()).filter(|x| (x >> v) & 1 == 0).collect();
    let c0: Vec<bool> = lows.iter().map(|x| m[*x]).collect();
    let c1: Vec<bool> = lows.iter().map(|x| m[*x | (1 << v)]).collect();
    let indep = c0 == c1;
    let and = c0.iter().all(|b| !*b);
    let or = c1.iter().all(|b| *b);
    let nand = c0.iter().all(|b| *b);
    let nor = c1.iter().all(|b| !*b);
    let xor = c0.iter().zip(c1.iter()).all(|(a, b)| a != b);
    let pos = c0.iter().zip(c1.iter()).all(|(a, b)| !*a | *b);
    let neg = c0.iter().zip(c1.iter()).all(|(a, b)| *a | !*b);
    let d = if indep {
        DecompositionType::Independent
    } else if and && or {
        DecompositionType::Identity
    } else if nand && nor {
        DecompositionType::Negation
    } else if and {
        DecompositionType::And
    } else if or {
        DecompositionType::Or
    } else if nand {
        DecompositionType::Le
    } else if nor {
        DecompositionType::Lt
    } else if xor {
        DecompositionType::Xor
    } else {
        DecompositionType::None
    };
    (d, pos, neg)
}

fn bad_vars(n: usize) -> Vec<usize> {
    let mut v: Vec<usize> = (n..=n + 70).collect();
    v.push(usize::MAX);
    v.push(usize::MAX - 1);
    v.push(1 << 63);
    v
}

fn bad_bits(n: usize) -> Vec<usize> {
    let mut v: Vec<usize> = ((1usize << n)..=(1usize << n) + 70).collect();
    v.push(usize::MAX);
    v.push(1 << 63);
    v.push(1 << 32);
    v
}

/// All the functions for n <= 3, a sample otherwise
fn models(n: usize, rng: &mut Rng) -> Vec<Model> {
    let bits = 1usize << n;
    if n <= 3 {
        (0..(1usize << bits))
            .map(|f| (0..bits).map(|i| (f >> i) & 1 != 0).collect())
            .collect()
    } else {
        let mut ret: Vec<Model> = vec![vec![false; bits], vec![true; bits]];
        for _ in 0..12 {
            ret.push((0..bits).map(|_| rng.next() & 1 != 0).collect());
        }
        for v in 0..n {
            ret.push((0..bits).map(|x| (x >> v) & 1 != 0).collect());
            ret.push((0..bits).map(|x| (x >> v) & 1 != 0 && (x & 1) != 0).collect());
        }
        ret
    }
}

/// Checks on valid arguments for the dynamic Lut, against the model
fn check_valid_dynamic(n: usize, m: &Model, other: &Model) {
    let l = lut_of(n, m);
    let o = lut_of(n, other);
    assert_eq!(l.num_vars(), n);
    assert_eq!(model_of(&l), *m);
    for i in 0..m.len() {
        assert_eq!(l.get_bit(i), m[i]);
        assert_eq!(l.value(i), m[i]);
        let mut s = l.clone();
        s.set_bit(i);
        assert!(s.get_bit(i));
        s.unset_bit(i);
        assert!(!s.get_bit(i));
        s.set_value(i, m[i]);
        assert_eq!(s, l);
    }
    let and: Model = m.iter().zip(other).map(|(a, b)| *a & *b).collect();
    let or: Model = m.iter().zip(other).map(|(a, b)| *a | *b).collect();
    let xor: Model = m.iter().zip(other).map(|(a, b)| *a ^ *b).collect();
    assert_eq!(model_of(&l.and(&o)), and);
    assert_eq!(model_of(&l.or(&o)), or);
    assert_eq!(model_of(&l.xor(&o)), xor);
    assert_eq!(model_of(&(&l & &o)), and);
    assert_eq!(model_of(&(&l | &o)), or);
    assert_eq!(model_of(&(&l ^ &o)), xor);
    let mut t = l.clone();
    t &= &o;
    assert_eq!(model_of(&t), and);
    let mut t = l.clone();
    t |= &o;
    assert_eq!(model_of(&t), or);
    let mut t = l.clone();
    t ^= &o;
    assert_eq!(model_of(&t), xor);
    let mut t = l.clone();
    t.and_inplace(&o);
    assert_eq!(model_of(&t), and);
    let mut t = l.clone();
    t.or_inplace(&o);
    assert_eq!(model_of(&t), or);
    let mut t = l.clone();
    t.xor_inplace(&o);
    assert_eq!(model_of(&t), xor);
    assert_eq!(Lut::from_blocks(n, l.blocks()), l);
    assert_eq!(Lut::bdd_complexity(&[l.clone(), o.clone()]), Lut::bdd_complexity(&[l.clone(), o.clone()]));

    for v in 0..n {
        let nv = Lut::nth_var(n, v);
        for x in 0..m.len() {
            assert_eq!(nv.value(x), (x >> v) & 1 != 0);
        }
        let flipped: Model = (0..m.len()).map(|x| m[x ^ (1 << v)]).collect();
        assert_eq!(model_of(&l.flip(v)), flipped);
        let mut t = l.clone();
        t.flip_inplace(v);
        assert_eq!(model_of(&t), flipped);

        let (c0, c1) = l.cofactors(v);
        let m0: Model = (0..m.len()).map(|x| m[x & !(1 << v)]).collect();
        let m1: Model = (0..m.len()).map(|x| m[x | (1 << v)]).collect();
        assert_eq!(model_of(&c0), m0);
        assert_eq!(model_of(&c1), m1);
        assert_eq!(Lut::from_cofactors(&c0, &c1, v), l);
        // Mixing the cofactors of two functions
        let (_, o1) = o.cofactors(v);
        let mix: Model = (0..m.len())
            .map(|x| if (x >> v) & 1 != 0 { other[x] } else { m[x] })
            .collect();
        assert_eq!(model_of(&Lut::from_cofactors(&c0, &o1, v)), mix);

        let (d, pos, neg) = model_decomposition(m, v);
        assert_eq!(l.top_decomposition(v), d);
        assert_eq!(l.is_pos_unate(v), pos);
        assert_eq!(l.is_neg_unate(v), neg);

        for w in 0..n {
            let swapped: Model = (0..m.len()).map(|x| m[swap_bits(x, v, w)]).collect();
            assert_eq!(model_of(&l.swap(v, w)), swapped);
            let mut t = l.clone();
            t.swap_inplace(v, w);
            assert_eq!(model_of(&t), swapped);
        }
        if v + 1 < n {
            let swapped: Model = (0..m.len()).map(|x| m[swap_bits(x, v, v + 1)]).collect();
            let mut t = l.clone();
            assert_eq!(model_of(&t.swap_adjacent(v)), swapped);
            assert_eq!(t, l);
            t.swap_adjacent_inplace(v);
            assert_eq!(model_of(&t), swapped);
        }
    }
}

/// Every index-taking method of the dynamic Lut refuses bad arguments
fn check_invalid_dynamic(n: usize, m: &Model) {
    let l = lut_of(n, m);
    for b in bad_bits(n) {
        assert!(refused(|| l.get_bit(b)), "get_bit n={n} b={b}");
        assert!(refused(|| l.value(b)), "value n={n} b={b}");
        assert!(refused(|| l.clone().set_bit(b)), "set_bit n={n} b={b}");
        assert!(refused(|| l.clone().unset_bit(b)), "unset_bit n={n} b={b}");
        assert!(refused(|| l.clone().set_value(b, true)), "set_value n={n} b={b}");
        assert!(refused(|| l.clone().set_value(b, false)), "set_value n={n} b={b}");
    }
    for v in bad_vars(n) {
        assert!(refused(|| Lut::nth_var(n, v)), "nth_var n={n} v={v}");
        assert!(refused(|| l.flip(v)), "flip n={n} v={v}");
        assert!(refused(|| l.clone().flip_inplace(v)), "flip_inplace n={n} v={v}");
        assert!(refused(|| l.cofactors(v)), "cofactors n={n} v={v}");
        assert!(refused(|| Lut::from_cofactors(&l, &l, v)), "from_cofactors n={n} v={v}");
        assert!(refused(|| l.top_decomposition(v)), "top_decomposition n={n} v={v}");
        assert!(refused(|| l.is_pos_unate(v)), "is_pos_unate n={n} v={v}");
        assert!(refused(|| l.is_neg_unate(v)), "is_neg_unate n={n} v={v}");
        assert!(refused(|| l.clone().swap_adjacent(v)), "swap_adjacent n={n} v={v}");
        assert!(refused(|| l.clone().swap_adjacent_inplace(v)), "swap_adjacent_inplace n={n} v={v}");
        assert!(refused(|| l.swap(v, v)), "swap n={n} v={v}");
        for w in 0..n {
            assert!(refused(|| l.swap(v, w)), "swap n={n} {v} {w}");
            assert!(refused(|| l.swap(w, v)), "swap n={n} {w} {v}");
            assert!(refused(|| l.clone().swap_inplace(v, w)), "swap_inplace n={n} {v} {w}");
            assert!(refused(|| l.clone().swap_inplace(w, v)), "swap_inplace n={n} {w} {v}");
        }
    }
    // The last variable has no successor
    if n > 0 {
        assert!(refused(|| l.clone().swap_adjacent(n - 1)), "swap_adjacent n={n} last");
        assert!(refused(|| l.clone().swap_adjacent_inplace(n - 1)), "swap_adjacent_inplace n={n} last");
    }
    // Size mismatches
    for k in 0..=9usize {
        if k == n {
            continue;
        }
        let o = Lut::parity(k);
        assert!(refused(|| l.and(&o)), "and {n} {k}");
        assert!(refused(|| l.or(&o)), "or {n} {k}");
        assert!(refused(|| l.xor(&o)), "xor {n} {k}");
        assert!(refused(|| l.clone().and_inplace(&o)), "and_inplace {n} {k}");
        assert!(refused(|| l.clone().or_inplace(&o)), "or_inplace {n} {k}");
        assert!(refused(|| l.clone().xor_inplace(&o)), "xor_inplace {n} {k}");
        assert!(refused(|| &l & &o), "& {n} {k}");
        assert!(refused(|| &l | &o), "| {n} {k}");
        assert!(refused(|| &l ^ &o), "^ {n} {k}");
        assert!(refused(|| l.clone() & o.clone()), "& {n} {k}");
        assert!(refused(|| l.clone() | o.clone()), "| {n} {k}");
        assert!(refused(|| l.clone() ^ o.clone()), "^ {n} {k}");
        assert!(refused(|| { let mut t = l.clone(); t &= &o; t }), "&= {n} {k}");
        assert!(refused(|| { let mut t = l.clone(); t |= &o; t }), "|= {n} {k}");
        assert!(refused(|| { let mut t = l.clone(); t ^= &o; t }), "^= {n} {k}");
        assert!(refused(|| { let mut t = l.clone(); t &= o.clone(); t }), "&= {n} {k}");
        assert!(refused(|| { let mut t = l.clone(); t |= o.clone(); t }), "|= {n} {k}");
        assert!(refused(|| { let mut t = l.clone(); t ^= o.clone(); t }), "^= {n} {k}");
        assert!(refused(|| Lut::bdd_complexity(&[l.clone(), o.clone()])), "bdd {n} {k}");
        assert!(refused(|| Lut::bdd_complexity(&[l.clone(), l.clone(), o.clone()])), "bdd {n} {k}");
        for v in 0..n.min(k) {
            assert!(refused(|| Lut::from_cofactors(&l, &o, v)), "from_cofactors {n} {k} {v}");
            assert!(refused(|| Lut::from_cofactors(&o, &l, v)), "from_cofactors {k} {n} {v}");
        }
    }
    // Wrong slice lengths
    let nb = l.num_blocks();
    for len in 0..=nb + 5 {
        if len != nb {
            let blocks = vec![0u64; len];
            assert!(refused(|| Lut::from_blocks(n, &blocks)), "from_blocks {n} {len}");
        }
    }
}

macro_rules! check_static {
    ($t:ty, $n:expr, $models:expr) => {{
        let n: usize = $n;
        let ms: &Vec<Model> = $models;
        for (k, m) in ms.iter().enumerate() {
            let d = lut_of(n, m);
            let dyn_o = lut_of(n, &ms[(k * 7 + 3) % ms.len()]);
            let s = <$t>::try_from(d.clone()).unwrap();
            let o = <$t>::try_from(dyn_o.clone()).unwrap();
            assert_eq!(s.num_vars(), n);
            // Valid arguments: same as the dynamic version (itself compared to the model)
            for i in 0..m.len() {
                assert_eq!(s.get_bit(i), m[i]);
                assert_eq!(s.value(i), m[i]);
                let mut t = s;
                t.set_bit(i);
                assert!(t.get_bit(i));
                t.unset_bit(i);
                assert!(!t.get_bit(i));
                t.set_value(i, m[i]);
                assert_eq!(t, s);
            }
            assert_eq!(Lut::from(s.and(&o)), d.and(&dyn_o));
            assert_eq!(Lut::from(s.or(&o)), d.or(&dyn_o));
            assert_eq!(Lut::from(s.xor(&o)), d.xor(&dyn_o));
            assert_eq!(<$t>::from_blocks(s.blocks()), s);
            assert_eq!(s.blocks(), d.blocks());
            assert_eq!(<$t>::bdd_complexity(&[s, o]), Lut::bdd_complexity(&[d.clone(), dyn_o.clone()]));
            for v in 0..n {
                assert_eq!(Lut::from(<$t>::nth_var(v)), Lut::nth_var(n, v));
                assert_eq!(Lut::from(s.flip(v)), d.flip(v));
                let mut t = s;
                t.flip_inplace(v);
                assert_eq!(Lut::from(t), d.flip(v));
                let (c0, c1) = s.cofactors(v);
                let (d0, d1) = d.cofactors(v);
                assert_eq!(Lut::from(c0), d0);
                assert_eq!(Lut::from(c1), d1);
                assert_eq!(<$t>::from_cofactors(&c0, &c1, v), s);
                let (_, o1) = o.cofactors(v);
                let (_, do1) = dyn_o.cofactors(v);
                assert_eq!(
                    Lut::from(<$t>::from_cofactors(&c0, &o1, v)),
                    Lut::from_cofactors(&d0, &do1, v)
                );
                let (dec, pos, neg) = model_decomposition(m, v);
                assert_eq!(s.top_decomposition(v), dec);
                assert_eq!(s.is_pos_unate(v), pos);
                assert_eq!(s.is_neg_unate(v), neg);
                for w in 0..n {
                    assert_eq!(Lut::from(s.swap(v, w)), d.swap(v, w));
                    let mut t = s;
                    t.swap_inplace(v, w);
                    assert_eq!(Lut::from(t), d.swap(v, w));
                }
                if v + 1 < n {
                    let mut t = s;
                    assert_eq!(Lut::from(t.swap_adjacent(v)), d.swap(v, v + 1));
                    t.swap_adjacent_inplace(v);
                    assert_eq!(Lut::from(t), d.swap(v, v + 1));
                }
            }
            if k >= 3 {
                continue;
            }
            // Invalid arguments
            for b in bad_bits(n) {
                assert!(refused(|| s.get_bit(b)), "static get_bit n={n} b={b}");
                assert!(refused(|| s.value(b)), "static value n={n} b={b}");
                assert!(refused(|| { let mut t = s; t.set_bit(b); t }), "static set_bit n={n} b={b}");
                assert!(refused(|| { let mut t = s; t.unset_bit(b); t }), "static unset_bit n={n} b={b}");
                assert!(refused(|| { let mut t = s; t.set_value(b, true); t }), "static set_value n={n} b={b}");
                assert!(refused(|| { let mut t = s; t.set_value(b, false); t }), "static set_value n={n} b={b}");
            }
            for v in bad_vars(n) {
                assert!(refused(|| <$t>::nth_var(v)), "static nth_var n={n} v={v}");
                assert!(refused(|| s.flip(v)), "static flip n={n} v={v}");
                assert!(refused(|| { let mut t = s; t.flip_inplace(v); t }), "static flip_inplace n={n} v={v}");
                assert!(refused(|| s.cofactors(v)), "static cofactors n={n} v={v}");
                assert!(refused(|| <$t>::from_cofactors(&s, &s, v)), "static from_cofactors n={n} v={v}");
                assert!(refused(|| s.top_decomposition(v)), "static top_decomposition n={n} v={v}");
                assert!(refused(|| s.is_pos_unate(v)), "static is_pos_unate n={n} v={v}");
                assert!(refused(|| s.is_neg_unate(v)), "static is_neg_unate n={n} v={v}");
                assert!(refused(|| { let mut t = s; t.swap_adjacent(v) }), "static swap_adjacent n={n} v={v}");
                assert!(refused(|| { let mut t = s; t.swap_adjacent_inplace(v); t }), "static swap_adjacent_inplace n={n} v={v}");
                assert!(refused(|| s.swap(v, v)), "static swap n={n} v={v}");
                for w in 0..n {
                    assert!(refused(|| s.swap(v, w)), "static swap n={n} {v} {w}");
                    assert!(refused(|| s.swap(w, v)), "static swap n={n} {w} {v}");
                    assert!(refused(|| { let mut t = s; t.swap_inplace(v, w); t }), "static swap_inplace n={n} {v} {w}");
                    assert!(refused(|| { let mut t = s; t.swap_inplace(w, v); t }), "static swap_inplace n={n} {w} {v}");
                }
            }
            if n > 0 {
                assert!(refused(|| { let mut t = s; t.swap_adjacent(n - 1) }), "static swap_adjacent n={n} last");
                assert!(refused(|| { let mut t = s; t.swap_adjacent_inplace(n - 1); t }), "static swap_adjacent_inplace n={n} last");
            }
            let nb = s.num_blocks();
            for len in 0..=nb + 5 {
                if len != nb {
                    let blocks = vec![0u64; len];
                    assert!(refused(|| <$t>::from_blocks(&blocks)), "static from_blocks {n} {len}");
                }
            }
        }
    }};
}

#[test]
fn invalid_arguments_are_refused_and_valid_ones_match_the_model() {
    // Keep the output readable: the expected panics are silenced, real failures are reported
    // through the collected result below
    let hook = std::panic::take_hook();
    std::panic::set_hook(Box::new(|_| {}));
    let result = catch_unwind(|| {
        let mut rng = Rng(17);
        for n in 0..=8usize {
            let ms = models(n, &mut rng);
            for (k, m) in ms.iter().enumerate() {
                check_valid_dynamic(n, m, &ms[(k * 5 + 1) % ms.len()]);
                if k < 4 || k + 1 == ms.len() {
                    check_invalid_dynamic(n, m);
                }
            }
            match n {
                0 => check_static!(Lut0, 0, &ms),
                1 => check_static!(Lut1, 1, &ms),
                2 => check_static!(Lut2, 2, &ms),
                3 => check_static!(Lut3, 3, &ms),
                4 => check_static!(Lut4, 4, &ms),
                5 => check_static!(Lut5, 5, &ms),
                6 => check_static!(Lut6, 6, &ms),
                7 => check_static!(Lut7, 7, &ms),
                _ => check_static!(Lut8, 8, &ms),
            }
        }
    });
    std::panic::set_hook(hook);
    if let Err(e) = result {
        let msg = e
            .downcast_ref::<String>()
            .cloned()
            .or_else(|| e.downcast_ref::<&str>().map(|s| s.to_string()))
            .unwrap_or_else(|| "unknown failure".to_string());
        panic!("selfcheck failed: {msg}");
    }
}
