//! Self-check for property C19: random() yields well-formed, non-degenerate,
//! call-independent functions, from any thread. Public API only.
//!
//! All statistical assertions have a false-alarm probability far below 2^-100
//! for a fair generator (see comments).

use std::collections::HashSet;
use std::thread;

use volute::{Lut, Lut0, Lut1, Lut10, Lut11, Lut12, Lut2, Lut3, Lut4, Lut5, Lut6, Lut7, Lut8, Lut9};

const DRAWS: usize = 256;

/// Check a batch of draws of one size, given as (num_vars, blocks) pairs
fn check_batch(n: usize, draws: &[Vec<u64>]) {
    assert_eq!(draws.len(), DRAWS);
    let nbits = 1usize << n;
    let nwords = if n <= 6 { 1 } else { 1 << (n - 6) };
    let mut seen1 = vec![0u64; nwords];
    let mut seen0 = vec![0u64; nwords];
    for d in draws {
        // Well-formed: right number of blocks, no bit beyond 2^n
        assert_eq!(d.len(), nwords, "n={n}");
        if n < 6 {
            assert_eq!(d[0] >> nbits, 0, "n={n}: bit beyond 2^n set");
        }
        for (i, w) in d.iter().enumerate() {
            seen1[i] |= *w;
            seen0[i] |= !*w;
        }
    }
    // Every assignment receives both values over 256 draws.
    // Failure probability per bit: 2 * 2^-256; union over 4096 bits: < 2^-240.
    let full = if n < 6 { (1u64 << nbits) - 1 } else { !0u64 };
    for i in 0..nwords {
        assert_eq!(seen1[i] & full, full, "n={n}: some assignment never 1");
        assert_eq!(seen0[i] & full, full, "n={n}: some assignment never 0");
    }
    // Draws differ from one another.
    let distinct: HashSet<&Vec<u64>> = draws.iter().collect();
    if nbits >= 64 {
        // Collision probability < 256^2 / 2^64 per batch is too weak alone;
        // use pairs: all distinct except with probability < 2^-48 per batch for
        // n = 6, so only demand near-distinctness there and exactness above.
        if n >= 9 {
            // < 2^16 * 2^-512
            assert_eq!(distinct.len(), DRAWS, "n={n}: repeated draw");
        } else {
            // P(two or more collisions among 256 draws of >= 64 bits) is
            // astronomically small only for larger n; demand >= 250 here:
            // needs >= 6 collisions, each < 2^-48: < 2^-200.
            assert!(distinct.len() >= DRAWS - 6, "n={n}: too many repeats");
        }
    } else {
        // Small tables must repeat; a fair generator reaches every value of a
        // table with <= 4 bits (256 draws, 16 values: miss prob < 16 * (15/16)^256
        // < 2^-19 -- so only demand at least 2 distinct values for n >= 1, whose
        // failure probability is <= 2^-255) .
        if n >= 1 {
            assert!(distinct.len() >= 2, "n={n}: constant generator");
        }
        if n == 5 {
            // 32-bit tables: >= 6 collisions among 2^15 pairs of prob 2^-32 each
            // has probability < (2^-17)^6 / 6! < 2^-100
            assert!(distinct.len() >= DRAWS - 6, "n={n}: too many repeats");
        }
    }
    // Balance over the batch (weak, safe bound): total ones within 256*nbits/2
    // +- 24 standard deviations; sd = sqrt(256*nbits)/2. P < 2^-400.
    let total: u64 = draws
        .iter()
        .map(|d| d.iter().map(|w| w.count_ones() as u64).sum::<u64>())
        .sum();
    let nb = (DRAWS * nbits) as f64;
    let dev = (total as f64 - nb / 2.0).abs();
    assert!(dev <= 24.0 * nb.sqrt() / 2.0, "n={n}: biased ({total} of {nb})");
}

fn draw_dynamic(n: usize) -> Vec<Vec<u64>> {
    (0..DRAWS)
        .map(|_| {
            let l = Lut::random(n);
            assert_eq!(l.num_vars(), n);
            assert_eq!(l.num_bits(), 1 << n);
            // Cross-check blocks() against value()
            let b = l.blocks().to_vec();
            for m in [0usize, (1 << n) - 1, (1 << n) / 3] {
                assert_eq!(l.value(m), (b[m >> 6] >> (m & 63)) & 1 != 0);
            }
            b
        })
        .collect()
}

macro_rules! draw_static {
    ($t:ty) => {
        (0..DRAWS)
            .map(|_| <$t>::random().blocks().to_vec())
            .collect::<Vec<Vec<u64>>>()
    };
}

fn draw_static(n: usize) -> Vec<Vec<u64>> {
    match n {
        0 => draw_static!(Lut0),
        1 => draw_static!(Lut1),
        2 => draw_static!(Lut2),
        3 => draw_static!(Lut3),
        4 => draw_static!(Lut4),
        5 => draw_static!(Lut5),
        6 => draw_static!(Lut6),
        7 => draw_static!(Lut7),
        8 => draw_static!(Lut8),
        9 => draw_static!(Lut9),
        10 => draw_static!(Lut10),
        11 => draw_static!(Lut11),
        12 => draw_static!(Lut12),
        _ => unreachable!(),
    }
}

fn check_all_sizes() -> Vec<Vec<u64>> {
    // Returns the first draws of the 12-variable size, for cross-thread comparison
    let mut first = Vec::new();
    for n in 0..=12 {
        let d = draw_dynamic(n);
        check_batch(n, &d);
        let s = draw_static(n);
        check_batch(n, &s);
        if n == 12 {
            first = d;
        }
    }
    first
}

#[test]
fn random_single_thread() {
    check_all_sizes();
}

#[test]
fn random_sixteen_threads() {
    let handles: Vec<_> = (0..16).map(|_| thread::spawn(check_all_sizes)).collect();
    let mut all: Vec<Vec<u64>> = Vec::new();
    for h in handles {
        all.extend(h.join().expect("thread panicked"));
    }
    // Threads do not replay one another's stream: all 16*256 draws of 4096 bits differ
    let distinct: HashSet<&Vec<u64>> = all.iter().collect();
    assert_eq!(distinct.len(), all.len());
}

#[test]
fn random_words_are_independent() {
    // Multi-word tables: words of one draw are not copies of one another, and
    // adjacent draws do not share words (guards against buffer reuse bugs).
    for n in 7..=12 {
        let mut words: HashSet<u64> = HashSet::new();
        let mut count = 0usize;
        for _ in 0..64 {
            let l = Lut::random(n);
            for w in l.blocks() {
                words.insert(*w);
                count += 1;
            }
        }
        // <= 2^12 words: >= 3 collisions has probability < (2^24 * 2^-64)^3 < 2^-120
        assert!(words.len() + 2 >= count, "n={n}: repeated words");
    }
}
