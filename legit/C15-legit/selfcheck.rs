//! Self-check for C15: Lut -> Esop gives the unique positive-polarity Reed-Muller form,
//! ^ and ! denote Xor / complement, is_zero / is_one hold only for the constants.
//! Uses the public API only; cube ORDER is deliberately not checked.

use std::collections::BTreeSet;

use volute::sop::{Cube, Esop};
use volute::Lut;

struct Lcg(u64);
impl Lcg {
    fn next(&mut self) -> u64 {
        self.0 = self
            .0
            .wrapping_mul(6364136223846793005)
            .wrapping_add(1442695040888963407);
        let x = self.0;
        (x ^ (x >> 29)).wrapping_mul(0xbf58476d1ce4e5b9) ^ (x >> 32)
    }
}

fn lut_from_fn(n: usize, mut f: impl FnMut(usize) -> bool) -> Lut {
    let mut l = Lut::zero(n);
    for m in 0..(1usize << n) {
        if f(m) {
            l.set_bit(m);
        }
    }
    l
}

/// Definition-level ANF: coefficient of S = Xor of f over all assignments contained in S
fn anf_reference(l: &Lut) -> BTreeSet<u32> {
    let n = l.num_vars();
    let mut ret = BTreeSet::new();
    for s in 0..(1usize << n) {
        let mut c = false;
        let mut t = s;
        loop {
            c ^= l.value(t);
            if t == 0 {
                break;
            }
            t = (t - 1) & s;
        }
        if c {
            ret.insert(s as u32);
        }
    }
    ret
}

fn check_conversion(l: &Lut) {
    let n = l.num_vars();
    let e = Esop::from(l);
    assert_eq!(e.num_vars(), n);
    let expected = anf_reference(l);
    // Each expected cube exactly once, no negative literal, nothing else
    assert_eq!(e.num_cubes(), expected.len(), "{l}");
    let mut seen = BTreeSet::new();
    let mut lits = 0;
    for c in e.cubes() {
        assert!(!c.is_zero());
        assert_eq!(c.neg_vars().count(), 0, "negative literal in {e}");
        let mut mask = 0u32;
        for v in c.pos_vars() {
            assert!(v < n);
            mask |= 1 << v;
        }
        assert_eq!(*c, Cube::from_mask(mask, 0));
        assert!(seen.insert(mask), "cube repeated in {e}");
        lits += mask.count_ones() as usize;
    }
    assert_eq!(seen, expected, "{l}");
    assert_eq!(e.num_lits(), lits);
    // Round trip, pointwise value, by-value conversion
    assert_eq!(Lut::from(&e), *l);
    for m in 0..(1usize << n) {
        assert_eq!(e.value(m), l.value(m));
    }
    let e2: Esop = l.clone().into();
    assert_eq!(e2, e, "equal functions must give equal Esops");
    let back: Lut = e2.into();
    assert_eq!(back, *l);
    // Constants
    assert_eq!(e.is_zero(), *l == Lut::zero(n));
    assert_eq!(e.is_one(), *l == Lut::one(n));
}

#[test]
fn conversion_exhaustive_small() {
    for n in 0..=4usize {
        let bits = 1usize << n;
        for t in 0..(1u64 << bits) {
            let l = lut_from_fn(n, |m| (t >> m) & 1 != 0);
            check_conversion(&l);
        }
    }
}

#[test]
fn conversion_random_and_structured() {
    let mut rng = Lcg(15);
    for n in 0..=10usize {
        check_conversion(&Lut::zero(n));
        check_conversion(&Lut::one(n));
        for v in 0..n {
            check_conversion(&Lut::nth_var(n, v));
            check_conversion(&!Lut::nth_var(n, v));
        }
        // parity, and, or, majority-like threshold, single minterms
        check_conversion(&lut_from_fn(n, |m| m.count_ones() % 2 == 1));
        check_conversion(&lut_from_fn(n, |m| m + 1 == 1 << n));
        check_conversion(&lut_from_fn(n, |m| m != 0));
        check_conversion(&lut_from_fn(n, |m| 2 * m.count_ones() as usize > n));
        check_conversion(&lut_from_fn(n, |m| m == 0));
        check_conversion(&lut_from_fn(n, |m| m == (0x2a5 & ((1 << n) - 1))));
        let reps = if n <= 8 { 40 } else { 8 };
        for r in 0..reps {
            let blocks: Vec<u64> = (0..Lut::zero(n).num_blocks())
                .map(|_| match r % 4 {
                    0 => rng.next(),
                    1 => rng.next() & rng.next() & rng.next(),
                    2 => rng.next() | rng.next() | rng.next(),
                    _ => 1u64 << (rng.next() % 64),
                })
                .collect();
            // Go through set_bit so that the unused high bits are whatever the crate wants
            let l = lut_from_fn(n, |m| (blocks[m >> 6] >> (m & 63)) & 1 != 0);
            check_conversion(&l);
        }
    }
}

fn random_cubes(rng: &mut Lcg, n: usize) -> Vec<Cube> {
    let len = (rng.next() % 7) as usize;
    let full = if n == 0 { 0 } else { (1u32 << n) - 1 };
    // Zero cubes (a variable in both polarities) are not accepted by from_cubes below 32 variables
    (0..len)
        .map(|_| match rng.next() % 8 {
            0 | 1 => Cube::one(),
            2 => Cube::from_mask(rng.next() as u32 & full, 0),
            _ => Cube::from_mask(rng.next() as u32 & full, rng.next() as u32 & full),
        })
        .filter(|c| !c.is_zero())
        .collect()
}

fn denot(e: &Esop) -> Lut {
    // Independent of Lut::from(&Esop): evaluate cube by cube
    lut_from_fn(e.num_vars(), |m| {
        e.cubes().iter().fold(false, |a, c| a ^ c.value(m))
    })
}

fn check_consts(e: &Esop) {
    let n = e.num_vars();
    let f = denot(e);
    assert_eq!(Lut::from(e), f);
    if e.is_zero() {
        assert_eq!(f, Lut::zero(n), "is_zero on non-zero {e}");
    }
    if e.is_one() {
        assert_eq!(f, Lut::one(n), "is_one on non-one {e}");
    }
}

#[test]
fn operators_on_random_cube_lists() {
    let mut rng = Lcg(1515);
    for n in 0..=6usize {
        assert!(Esop::zero(n).is_zero() && !Esop::zero(n).is_one());
        assert!(Esop::one(n).is_one() && !Esop::one(n).is_zero());
        assert!((!Esop::zero(n)).is_one() || denot(&!Esop::zero(n)) == Lut::one(n));
        for _ in 0..400 {
            let mut ca = random_cubes(&mut rng, n);
            let cb = if rng.next() % 4 == 0 {
                // Share cubes between the operands to exercise cancellation
                ca.iter()
                    .rev()
                    .cloned()
                    .chain(random_cubes(&mut rng, n))
                    .collect()
            } else {
                random_cubes(&mut rng, n)
            };
            if rng.next() % 5 == 0 {
                ca.extend(ca.clone());
            }
            let a = Esop::from_cubes(n, ca);
            let b = Esop::from_cubes(n, cb);
            let (fa, fb) = (denot(&a), denot(&b));
            check_consts(&a);
            check_consts(&b);

            for x in [
                &a ^ &b,
                a.clone() ^ b.clone(),
                &a ^ b.clone(),
                a.clone() ^ &b,
            ] {
                assert_eq!(x.num_vars(), n);
                assert_eq!(denot(&x), &fa ^ &fb, "{a} ^ {b} = {x}");
                check_consts(&x);
            }
            let s = &a ^ &a;
            assert_eq!(denot(&s), Lut::zero(n));
            check_consts(&s);

            for x in [!&a, !a.clone()] {
                assert_eq!(x.num_vars(), n);
                assert_eq!(denot(&x), !&fa, "!{a} = {x}");
                check_consts(&x);
                let y = !x;
                assert_eq!(denot(&y), fa);
                check_consts(&y);
            }
            let t = &a ^ &!&a;
            assert_eq!(denot(&t), Lut::one(n));
            check_consts(&t);
        }
    }
}

#[test]
fn operators_agree_with_canonical_form() {
    // Xor / Not of canonical forms denote the same function as the canonical form of the result
    let mut rng = Lcg(7);
    for n in 0..=7usize {
        for _ in 0..50 {
            let la = lut_from_fn(n, |_| rng.next() & 1 != 0);
            let lb = lut_from_fn(n, |_| rng.next() & 3 == 0);
            let (ea, eb) = (Esop::from(&la), Esop::from(&lb));
            assert_eq!(Lut::from(&ea ^ &eb), &la ^ &lb);
            assert_eq!(Lut::from(!&ea), !&la);
            assert_eq!(Esop::from(Lut::from(&ea ^ &eb)), Esop::from(&la ^ &lb));
            assert_eq!(Esop::from(Lut::from(!&eb)), Esop::from(!&lb));
        }
    }
}

#[test]
fn operators_with_32_variables_and_zero_cubes() {
    // With 32 variables the zero cube is a legal member of a cube list; check pointwise
    let mut rng = Lcg(32);
    let val = |e: &Esop, m: usize| e.cubes().iter().fold(false, |a, c| a ^ c.value(m));
    for _ in 0..300 {
        let mk = |rng: &mut Lcg| -> Vec<Cube> {
            (0..rng.next() % 6)
                .map(|_| match rng.next() % 4 {
                    0 => Cube::one(),
                    1 => Cube::zero(),
                    _ => Cube::from_mask(
                        (rng.next() & rng.next() & rng.next()) as u32,
                        (rng.next() & rng.next() & rng.next()) as u32,
                    ),
                })
                .collect()
        };
        let ca = mk(&mut rng);
        let mut cb = mk(&mut rng);
        if rng.next() % 3 == 0 {
            cb.extend(ca.iter().cloned());
        }
        let a = Esop::from_cubes(32, ca);
        let b = Esop::from_cubes(32, cb);
        let x = &a ^ &b;
        let na = !&a;
        let nna = !&na;
        let mut masks: Vec<usize> = vec![0, 0xffff_ffff];
        for c in a.cubes().iter().chain(b.cubes()).filter(|c| !c.is_zero()) {
            // A point inside every cube, plus perturbations
            let inside = c.pos_vars().fold(0usize, |m, v| m | (1 << v));
            masks.push(inside);
            masks.push(
                inside
                    | (rng.next() as u32 as usize
                        & !c.neg_vars().fold(0usize, |m, v| m | (1 << v))),
            );
        }
        for _ in 0..50 {
            masks.push(rng.next() as u32 as usize);
        }
        let mut all_zero = [true; 5];
        let mut all_one = [true; 5];
        for &m in &masks {
            let (va, vb) = (val(&a, m), val(&b, m));
            assert_eq!(a.value(m), va);
            assert_eq!(x.value(m), va ^ vb, "{a} ^ {b} = {x} at {m:x}");
            assert_eq!(na.value(m), !va, "!{a} = {na} at {m:x}");
            assert_eq!(nna.value(m), va);
            for (k, e) in [&a, &b, &x, &na, &nna].iter().enumerate() {
                all_zero[k] &= !e.value(m);
                all_one[k] &= e.value(m);
            }
        }
        for (k, e) in [&a, &b, &x, &na, &nna].iter().enumerate() {
            // is_zero / is_one may only hold for the constants
            assert!(!e.is_zero() || all_zero[k], "is_zero on {e}");
            assert!(!e.is_one() || all_one[k], "is_one on {e}");
        }
    }
}
