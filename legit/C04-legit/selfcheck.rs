//! Self check for C04: P / N / NPN canonization return the orbit minimum (library ordering),
//! for Lut and LutN. Uses only the public API. The group action and the orbit enumeration are
//! modelled independently on plain bit vectors (no use of the library's swap/flip kernels).
//!
//! Also checks what the documentation of the canonization functions says about the returned
//! permutation / flips: they are "the permutation and flips to obtain" the representative.
//! Which of several valid permutations / flips is returned is NOT checked.

use std::cmp::Ordering;
use volute::{Lut, StaticLut};

/// Model of a function: bit `x` of the table (64 per word) is f(x)
#[derive(Clone, PartialEq, Eq, Debug)]
struct Tt {
    n: usize,
    w: Vec<u64>,
}

impl Tt {
    fn zero(n: usize) -> Tt {
        Tt { n, w: vec![0; if n <= 6 { 1 } else { 1 << (n - 6) }] }
    }
    fn get(&self, x: usize) -> bool {
        (self.w[x >> 6] >> (x & 63)) & 1 != 0
    }
    fn set(&mut self, x: usize) {
        self.w[x >> 6] |= 1 << (x & 63);
    }
    fn from_lut(l: &Lut) -> Tt {
        let mut t = Tt::zero(l.num_vars());
        for x in 0..(1usize << t.n) {
            if l.value(x) {
                t.set(x);
            }
        }
        t
    }
    fn to_lut(&self) -> Lut {
        let mut l = Lut::zero(self.n);
        for x in 0..(1usize << self.n) {
            l.set_value(x, self.get(x));
        }
        l
    }
    /// Model of the ordering: most significant input combination first
    fn cmp(&self, o: &Tt) -> Ordering {
        self.w.iter().rev().cmp(o.w.iter().rev())
    }
    /// g(x) = f(y) ^ out, where x' = x ^ inputs, y[perm[j]] = x'[j]
    /// (permutation first, then input flips and output flip, as read from the result)
    fn transform(&self, perm: &[u8], flips: u32) -> Tt {
        let n = self.n;
        assert_eq!(perm.len(), n);
        let out = (flips >> n) & 1 != 0;
        let inputs = (flips as usize) & ((1usize << n) - 1);
        let mut g = Tt::zero(n);
        for x in 0..(1usize << n) {
            let xp = x ^ inputs;
            let mut y = 0usize;
            for j in 0..n {
                y |= ((xp >> j) & 1) << perm[j];
            }
            if self.get(y) != out {
                g.set(x);
            }
        }
        g
    }
}

fn all_perms(n: usize) -> Vec<Vec<u8>> {
    fn rec(cur: &mut Vec<u8>, used: &mut Vec<bool>, n: usize, out: &mut Vec<Vec<u8>>) {
        if cur.len() == n {
            out.push(cur.clone());
            return;
        }
        for v in 0..n {
            if !used[v] {
                used[v] = true;
                cur.push(v as u8);
                rec(cur, used, n, out);
                cur.pop();
                used[v] = false;
            }
        }
    }
    let mut out = vec![];
    rec(&mut vec![], &mut vec![false; n], n, &mut out);
    out
}

#[derive(Clone, Copy, PartialEq, Eq, Debug)]
enum Group {
    P,
    N,
    NPN,
}

fn orbit_min(f: &Tt, group: Group, perms: &[Vec<u8>]) -> Tt {
    let n = f.n;
    let id: Vec<u8> = (0..n as u8).collect();
    let mut best = f.clone();
    let nflips: u32 = if group == Group::P { 1 } else { 1 << (n + 1) };
    let plist: &[Vec<u8>] = if group == Group::N { std::slice::from_ref(&id) } else { perms };
    for p in plist {
        let pf = f.transform(p, 0);
        for m in 0..nflips {
            let g = if m == 0 { pf.clone() } else { pf.transform(&id, m) };
            if g.cmp(&best).is_lt() {
                best = g;
            }
        }
    }
    best
}

struct Rng(u64);
impl Rng {
    fn next(&mut self) -> u64 {
        // splitmix64
        self.0 = self.0.wrapping_add(0x9e3779b97f4a7c15);
        let mut z = self.0;
        z = (z ^ (z >> 30)).wrapping_mul(0xbf58476d1ce4e5b9);
        z = (z ^ (z >> 27)).wrapping_mul(0x94d049bb133111eb);
        z ^ (z >> 31)
    }
    fn below(&mut self, k: usize) -> usize {
        (self.next() % (k as u64)) as usize
    }
    fn perm(&mut self, n: usize) -> Vec<u8> {
        let mut p: Vec<u8> = (0..n as u8).collect();
        for i in (1..n).rev() {
            let j = self.below(i + 1);
            p.swap(i, j);
        }
        p
    }
    fn tt(&mut self, n: usize) -> Tt {
        let mut t = Tt::zero(n);
        // Mix of densities, so that sparse and dense functions are seen
        let mode = self.below(4);
        for x in 0..(1usize << n) {
            let r = self.next();
            let bit = match mode {
                0 => r & 1 != 0,
                1 => r & 7 == 0,
                2 => r & 7 != 0,
                _ => (r & 1 != 0) && (x & 1 != 0 || r & 2 != 0),
            };
            if bit {
                t.set(x);
            }
        }
        t
    }
}

/// Results of the three canonizations for one function, as (representative, perm, flips)
struct Canon {
    p: (Lut, Vec<u8>),
    n: (Lut, u32),
    npn: (Lut, Vec<u8>, u32),
}

fn canon_lut(l: &Lut) -> Canon {
    Canon { p: l.p_canonization(), n: l.n_canonization(), npn: l.npn_canonization() }
}

fn canon_static<const N: usize, const T: usize>(l: &Lut) -> Canon {
    let s: StaticLut<N, T> = StaticLut::<N, T>::try_from(l.clone()).unwrap();
    let (p, pp) = s.p_canonization();
    let (n, nf) = s.n_canonization();
    let (c, cp, cf) = s.npn_canonization();
    Canon { p: (p.into(), pp.to_vec()), n: (n.into(), nf), npn: (c.into(), cp.to_vec(), cf) }
}

fn canon_static_dyn(l: &Lut) -> Canon {
    match l.num_vars() {
        0 => canon_static::<0, 1>(l),
        1 => canon_static::<1, 1>(l),
        2 => canon_static::<2, 1>(l),
        3 => canon_static::<3, 1>(l),
        4 => canon_static::<4, 1>(l),
        5 => canon_static::<5, 1>(l),
        6 => canon_static::<6, 1>(l),
        7 => canon_static::<7, 2>(l),
        8 => canon_static::<8, 4>(l),
        _ => unreachable!(),
    }
}

fn is_perm(p: &[u8], n: usize) -> bool {
    let mut seen = vec![false; n];
    p.len() == n && p.iter().all(|&v| (v as usize) < n && !std::mem::replace(&mut seen[v as usize], true))
}

/// Representatives are as expected, and the returned permutation / flips do obtain them
fn check_canon(f: &Tt, c: &Canon, exp_p: Option<&Tt>, exp_n: Option<&Tt>, exp_npn: Option<&Tt>, what: &str) {
    let n = f.n;
    let id: Vec<u8> = (0..n as u8).collect();
    let rp = Tt::from_lut(&c.p.0);
    let rn = Tt::from_lut(&c.n.0);
    let rc = Tt::from_lut(&c.npn.0);
    assert_eq!(c.p.0.num_vars(), n);
    assert_eq!(c.n.0.num_vars(), n);
    assert_eq!(c.npn.0.num_vars(), n);
    if let Some(e) = exp_p {
        assert_eq!(&rp, e, "{what} P representative of {f:?}");
    }
    if let Some(e) = exp_n {
        assert_eq!(&rn, e, "{what} N representative of {f:?}");
    }
    if let Some(e) = exp_npn {
        assert_eq!(&rc, e, "{what} NPN representative of {f:?}");
    }
    // Membership in the orbit, through the returned way to obtain the representative
    assert!(is_perm(&c.p.1, n), "{what} P perm {f:?}");
    assert!(is_perm(&c.npn.1, n), "{what} NPN perm {f:?}");
    assert!(c.n.1 >> (n + 1) == 0 && c.npn.2 >> (n + 1) == 0, "{what} flip mask range {f:?}");
    assert_eq!(f.transform(&c.p.1, 0), rp, "{what} P certificate of {f:?}");
    assert_eq!(f.transform(&id, c.n.1), rn, "{what} N certificate of {f:?}");
    assert_eq!(f.transform(&c.npn.1, 0).transform(&id, c.npn.2), rc, "{what} NPN certificate of {f:?}");
    // Never larger than the function itself, and coarser groups give smaller representatives
    assert!(rp.cmp(f).is_le() && rn.cmp(f).is_le());
    assert!(rc.cmp(&rp).is_le() && rc.cmp(&rn).is_le());
}

fn check_both(f: &Tt, exp_p: Option<&Tt>, exp_n: Option<&Tt>, exp_npn: Option<&Tt>) -> Canon {
    let l = f.to_lut();
    let cs = canon_static_dyn(&l);
    check_canon(f, &cs, exp_p, exp_n, exp_npn, "LutN");
    let c = canon_lut(&l);
    check_canon(f, &c, exp_p, exp_n, exp_npn, "Lut");
    // Lut and LutN agree on the representative
    assert_eq!(c.p.0, cs.p.0);
    assert_eq!(c.n.0, cs.n.0);
    assert_eq!(c.npn.0, cs.npn.0);
    c
}

/// The model ordering is the library ordering
#[test]
fn model_ordering_is_library_ordering() {
    let mut rng = Rng(4);
    for n in 0..=8 {
        for _ in 0..60 {
            let a = rng.tt(n);
            let mut b = rng.tt(n);
            if rng.below(3) == 0 {
                // Close pair: differ in a single position
                b = a.clone();
                let x = rng.below(1 << n);
                if !b.get(x) {
                    b.set(x);
                }
            }
            assert_eq!(a.cmp(&b), a.to_lut().cmp(&b.to_lut()));
            assert_eq!(Tt::from_lut(&a.to_lut()), a);
        }
    }
}

/// All functions of 0 to 4 variables, all three groups, full orbit enumeration
#[test]
fn exhaustive_up_to_4() {
    for n in 0..=4usize {
        let perms = all_perms(n);
        let nfun = 1usize << (1 << n);
        for group in [Group::P, Group::N, Group::NPN] {
            // Expected representative of each function: minimum of its fully enumerated orbit
            let mut expected: Vec<Option<u64>> = vec![None; nfun];
            let id: Vec<u8> = (0..n as u8).collect();
            for v in 0..nfun {
                if expected[v].is_some() {
                    continue;
                }
                let f = Tt { n, w: vec![v as u64] };
                let m = orbit_min(&f, group, &perms);
                // Assign to the whole orbit
                let nflips: u32 = if group == Group::P { 1 } else { 1 << (n + 1) };
                let plist: &[Vec<u8>] = if group == Group::N { std::slice::from_ref(&id) } else { &perms };
                for p in plist {
                    let pf = f.transform(p, 0);
                    for fl in 0..nflips {
                        let g = pf.transform(&id, fl);
                        let prev = expected[g.w[0] as usize].replace(m.w[0]);
                        assert!(prev.is_none() || prev == Some(m.w[0]));
                    }
                }
            }
            // Same representative exactly when in the same orbit: the orbits partition the
            // functions, and each one contains its expected representative
            for v in 0..nfun {
                let e = expected[v].unwrap() as usize;
                assert_eq!(expected[e], Some(e as u64));
            }
            // Thin out the largest case for the (slow, unoptimized) test build of NPN on both types
            let step = if n == 4 && group == Group::NPN { 3 } else { 1 };
            for v in (0..nfun).step_by(step).chain(nfun.saturating_sub(2)..nfun) {
                let f = Tt { n, w: vec![v as u64] };
                let e = Tt { n, w: vec![expected[v].unwrap()] };
                let l = f.to_lut();
                for (what, c) in [("Lut", single(&l, group, false)), ("LutN", single(&l, group, true))] {
                    assert_eq!(Tt::from_lut(&c), e, "{what} {group:?} representative of {f:?}");
                }
            }
        }
        // Certificates, cross-group relations, and idempotence on every function (n <= 3) or a sample
        let step = if n == 4 { 37 } else { 1 };
        for v in (0..nfun).step_by(step) {
            let f = Tt { n, w: vec![v as u64] };
            let c = check_both(&f, None, None, None);
            assert_eq!(c.p.0.p_canonization().0, c.p.0);
            assert_eq!(c.n.0.n_canonization().0, c.n.0);
            assert_eq!(c.npn.0.npn_canonization().0, c.npn.0);
        }
    }
}

fn single(l: &Lut, group: Group, stat: bool) -> Lut {
    fn st<const N: usize, const T: usize>(l: &Lut, group: Group) -> Lut {
        let s: StaticLut<N, T> = StaticLut::<N, T>::try_from(l.clone()).unwrap();
        match group {
            Group::P => s.p_canonization().0.into(),
            Group::N => s.n_canonization().0.into(),
            Group::NPN => s.npn_canonization().0.into(),
        }
    }
    if !stat {
        return match group {
            Group::P => l.p_canonization().0,
            Group::N => l.n_canonization().0,
            Group::NPN => l.npn_canonization().0,
        };
    }
    match l.num_vars() {
        0 => st::<0, 1>(l, group),
        1 => st::<1, 1>(l, group),
        2 => st::<2, 1>(l, group),
        3 => st::<3, 1>(l, group),
        4 => st::<4, 1>(l, group),
        _ => unreachable!(),
    }
}

fn structured(n: usize) -> Vec<Tt> {
    let mut v = vec![
        Lut::zero(n),
        Lut::one(n),
        Lut::parity(n),
        Lut::majority(n),
        Lut::threshold(n, 2),
        Lut::equals(n, 1),
        Lut::nth_var(n, n - 1),
        Lut::nth_var(n, 0),
        &Lut::nth_var(n, 1) & &!&Lut::nth_var(n, n - 2),
        &(&Lut::nth_var(n, 0) ^ &Lut::nth_var(n, n - 1)) | &Lut::nth_var(n, 2),
        &Lut::threshold(n, 3) & &Lut::nth_var(n, n - 1),
    ];
    v.dedup();
    v.iter().map(Tt::from_lut).collect()
}

/// 5 and 6 variables: full orbit enumeration on structured and pseudo-random functions
#[test]
fn sampled_5_6_full_orbits() {
    let mut rng = Rng(5);
    for n in [5usize, 6] {
        let perms = all_perms(n);
        let mut funcs = structured(n);
        for _ in 0..(if n == 5 { 8 } else { 3 }) {
            funcs.push(rng.tt(n));
        }
        for f in funcs.iter() {
            let ep = orbit_min(f, Group::P, &perms);
            let en = orbit_min(f, Group::N, &perms);
            let enpn = orbit_min(f, Group::NPN, &perms);
            let c = check_both(f, Some(&ep), Some(&en), Some(&enpn));
            assert_eq!(c.npn.0.npn_canonization().0, c.npn.0);
            // An equivalent function gets the same representative
            let g = f.transform(&rng.perm(n), rng.next() as u32 & ((2 << n) - 1));
            check_both(&g, None, None, Some(&enpn));
        }
    }
}

/// 7 and 8 variables: full P and N orbits; NPN through symmetric functions (whose NPN orbit is
/// their N orbit), sampled orbit members, invariance and idempotence
#[test]
fn sampled_7_8() {
    let mut rng = Rng(78);
    for n in [7usize, 8] {
        let perms = all_perms(n);
        let id: Vec<u8> = (0..n as u8).collect();
        let mut funcs = structured(n);
        let nsym = 6; // the first ones are totally symmetric
        for _ in 0..(if n == 7 { 3 } else { 1 }) {
            funcs.push(rng.tt(n));
        }
        let total = funcs.len();
        for (i, f) in funcs.iter().enumerate() {
            let l = f.to_lut();
            let en = orbit_min(f, Group::N, &perms);
            // Full P orbit on a few functions only (8! * 256 points each)
            let ep = if n == 7 || i == 8 || i + 1 == total { Some(orbit_min(f, Group::P, &perms)) } else { None };
            let enpn = if i < nsym { Some(en.clone()) } else { None };
            // NPN for 8 variables is slow in an unoptimized build: limit the number of calls
            let run_npn = n == 7 || i == 3 || i == 8 || i + 1 == total;
            if !run_npn {
                for stat in [false, true] {
                    let (rp, pp) = if stat {
                        let s = StaticLut::<8, 4>::try_from(l.clone()).unwrap();
                        let (r, p) = s.p_canonization();
                        (Lut::from(r), p.to_vec())
                    } else {
                        l.p_canonization()
                    };
                    let (rn, nf) = if stat {
                        let s = StaticLut::<8, 4>::try_from(l.clone()).unwrap();
                        let (r, m) = s.n_canonization();
                        (Lut::from(r), m)
                    } else {
                        l.n_canonization()
                    };
                    assert_eq!(Tt::from_lut(&rn), en);
                    if let Some(e) = &ep {
                        assert_eq!(&Tt::from_lut(&rp), e);
                    }
                    assert!(is_perm(&pp, n));
                    assert_eq!(f.transform(&pp, 0), Tt::from_lut(&rp));
                    assert_eq!(f.transform(&id, nf), Tt::from_lut(&rn));
                    assert_eq!(rp.p_canonization().0, rp);
                    assert_eq!(rn.n_canonization().0, rn);
                }
                continue;
            }
            let c = if n == 7 {
                check_both(f, ep.as_ref(), Some(&en), enpn.as_ref())
            } else {
                // Alternate between the two types
                let c = if i % 2 == 0 { canon_lut(&l) } else { canon_static_dyn(&l) };
                check_canon(f, &c, ep.as_ref(), Some(&en), enpn.as_ref(), "8 vars");
                c
            };
            let rc = Tt::from_lut(&c.npn.0);
            // No sampled member of the orbit is smaller than the representative
            for _ in 0..200 {
                let g = f.transform(&rng.perm(n), rng.next() as u32 & ((2 << n) - 1));
                assert!(rc.cmp(&g).is_le(), "smaller orbit member {g:?} of {f:?}");
            }
            // Invariance: an equivalent function gets the same representatives; idempotence
            let p = rng.perm(n);
            let m = rng.next() as u32 & ((2 << n) - 1);
            let gl = f.transform(&p, m).to_lut();
            assert_eq!(gl.npn_canonization().0, c.npn.0);
            assert_eq!(f.transform(&p, 0).to_lut().p_canonization().0, c.p.0);
            assert_eq!(f.transform(&id, m).to_lut().n_canonization().0, c.n.0);
            if n == 7 {
                assert_eq!(c.npn.0.npn_canonization().0, c.npn.0);
                let s = StaticLut::<7, 2>::try_from(gl.clone()).unwrap();
                assert_eq!(Lut::from(s.npn_canonization().0), c.npn.0);
            }
            assert_eq!(c.p.0.p_canonization().0, c.p.0);
            assert_eq!(c.n.0.n_canonization().0, c.n.0);
        }
    }
}
