//! Self-check for property C13: Ecube / Soes semantics (public API only).
//! Only the MEANING is asserted: never the number or order of stored terms,
//! nor the order of `Ecube::all`.

use std::collections::HashSet;

use volute::sop::{Ecube, Soes};
use volute::Lut;

/// Reference: parity of the chosen variables under the assignment, complemented for Xnor
fn ref_value(vars: u32, xnor: bool, mask: usize) -> bool {
    let mut p = xnor;
    for v in 0..32 {
        if (vars >> v) & 1 != 0 && (mask >> v) & 1 != 0 {
            p = !p;
        }
    }
    p
}

fn mk(vars: u32, xnor: bool) -> Ecube {
    let vs: Vec<usize> = (0..32).filter(|v| (vars >> v) & 1 != 0).collect();
    Ecube::from_vars(&vs, xnor)
}

fn table(c: &Ecube, n: usize) -> Vec<bool> {
    (0..1usize << n).map(|m| c.value(m)).collect()
}

#[test]
fn ecube_value_exhaustive() {
    for n in 0..=5usize {
        for vars in 0..1u32 << n {
            for xnor in [false, true] {
                let c = mk(vars, xnor);
                for m in 0..1usize << n {
                    assert_eq!(c.value(m), ref_value(vars, xnor, m));
                }
            }
        }
    }
}

#[test]
fn ecube_ops_and_equality_exhaustive_pairs() {
    for n in 0..=5usize {
        let all: Vec<Ecube> = Ecube::all(n).collect();
        for a in &all {
            let ta = table(a, n);
            let tn = table(&!a, n);
            let tn2 = table(&!*a, n);
            for m in 0..1usize << n {
                assert_eq!(tn[m], !ta[m]);
                assert_eq!(tn2[m], !ta[m]);
            }
            for b in &all {
                let tb = table(b, n);
                let x = [a ^ b, *a ^ *b, a ^ *b, *a ^ b];
                for xx in &x {
                    for m in 0..1usize << n {
                        assert_eq!(xx.value(m), ta[m] ^ tb[m]);
                    }
                }
                assert_eq!(a == b, ta == tb, "equality must be semantic");
            }
        }
    }
}

#[test]
fn ecube_all_is_complete_and_distinct() {
    for n in 0..=5usize {
        let all: Vec<Ecube> = Ecube::all(n).collect();
        assert_eq!(all.len(), 1 << (n + 1));
        let tabs: HashSet<Vec<bool>> = all.iter().map(|c| table(c, n)).collect();
        assert_eq!(tabs.len(), 1 << (n + 1), "terms must be pairwise distinct");
        // every term only uses variables < n
        for c in &all {
            assert!(c.vars().all(|v| v < n));
        }
        // every expected term is present
        for vars in 0..1u32 << n {
            for xnor in [false, true] {
                assert!(all.contains(&mk(vars, xnor)));
            }
        }
    }
}

/// Small deterministic generator (no external randomness)
struct Rng(u64);
impl Rng {
    fn next(&mut self) -> u64 {
        self.0 ^= self.0 << 13;
        self.0 ^= self.0 >> 7;
        self.0 ^= self.0 << 17;
        self.0
    }
}

#[test]
fn ecube_random_32_vars() {
    let mut r = Rng(0x9E3779B97F4A7C15);
    for _ in 0..20000 {
        let va = r.next() as u32;
        let vb = r.next() as u32;
        let xa = r.next() & 1 != 0;
        let xb = r.next() & 1 != 0;
        let (a, b) = (mk(va, xa), mk(vb, xb));
        assert_eq!(a == b, va == vb && xa == xb);
        for _ in 0..8 {
            let m = (r.next() as u32) as usize;
            assert_eq!(a.value(m), ref_value(va, xa, m));
            assert_eq!((a ^ b).value(m), a.value(m) ^ b.value(m));
            assert_eq!((!a).value(m), !a.value(m));
        }
    }
    // also masks with few / all bits set, and the zero-variable terms
    for m in [0usize, 1, 0xffff_ffff, 0x8000_0000, 0x0001_0000, 0x5555_5555] {
        assert!(Ecube::one().value(m));
        assert!(!Ecube::zero().value(m));
        let full = mk(u32::MAX, false);
        assert_eq!(full.value(m), (m as u32).count_ones() % 2 == 1);
    }
}

fn check_soes(n: usize, terms: &[Ecube]) -> Vec<bool> {
    let s = Soes::from_cubes(n, terms.to_vec());
    let want: Vec<bool> = (0..1usize << n)
        .map(|m| terms.iter().any(|c| c.value(m)))
        .collect();
    let lut = Lut::from(&s);
    assert_eq!(lut.num_vars(), n);
    for m in 0..1usize << n {
        assert_eq!(s.value(m), want[m], "Soes value is the Or of its terms");
        assert_eq!(lut.value(m), want[m], "Lut tabulates the Soes");
    }
    assert_eq!(Lut::from(s.clone()), lut);
    let all_one = want.iter().all(|b| *b);
    let all_zero = want.iter().all(|b| !*b);
    if s.is_zero() {
        assert!(all_zero, "is_zero on a non-zero function: {}", s);
    }
    if s.is_one() {
        assert!(all_one, "is_one on a non-one function: {}", s);
    }
    want
}

fn check_or(n: usize, ta: &[Ecube], tb: &[Ecube]) {
    let a = Soes::from_cubes(n, ta.to_vec());
    let b = Soes::from_cubes(n, tb.to_vec());
    let wa = check_soes(n, ta);
    let wb = check_soes(n, tb);
    let ors = [&a | &b, a.clone() | b.clone(), &a | b.clone(), a.clone() | &b];
    for o in &ors {
        assert_eq!(o.num_vars(), n);
        let lut = Lut::from(o);
        // the result must itself be a well-formed Soes: Or of ITS terms
        let own: Vec<Ecube> = o.cubes().to_vec();
        let mut all_one = true;
        let mut all_zero = true;
        for m in 0..1usize << n {
            let w = wa[m] | wb[m];
            assert_eq!(o.value(m), w, "| must be the Or of both operands");
            assert_eq!(lut.value(m), w);
            assert_eq!(own.iter().any(|c| c.value(m)), w);
            all_one &= w;
            all_zero &= !w;
        }
        if o.is_zero() {
            assert!(all_zero);
        }
        if o.is_one() {
            assert!(all_one);
        }
    }
}

#[test]
fn soes_exhaustive_small() {
    // all Soes of up to 3 terms over n <= 3, up to 2 terms for n = 4; plus sampled 4-term ones
    for n in 0..=4usize {
        let all: Vec<Ecube> = Ecube::all(n).collect();
        check_soes(n, &[]);
        for a in &all {
            check_soes(n, &[*a]);
            for b in &all {
                check_soes(n, &[*a, *b]);
                if n <= 3 {
                    for c in &all {
                        check_soes(n, &[*a, *b, *c]);
                    }
                }
            }
        }
    }
    let mut r = Rng(12345);
    for n in 0..=4usize {
        let all: Vec<Ecube> = Ecube::all(n).collect();
        for _ in 0..20000 {
            let k = (r.next() % 5) as usize;
            let t: Vec<Ecube> = (0..k)
                .map(|_| all[(r.next() % all.len() as u64) as usize])
                .collect();
            check_soes(n, &t);
        }
    }
}

#[test]
fn soes_or_small_and_random() {
    // all pairs of Soes with up to 2 terms each, n <= 2; 1 term each for n = 3, 4
    for n in 0..=4usize {
        let all: Vec<Ecube> = Ecube::all(n).collect();
        let mut lists: Vec<Vec<Ecube>> = vec![vec![]];
        for a in &all {
            lists.push(vec![*a]);
            if n <= 2 {
                for b in &all {
                    lists.push(vec![*a, *b]);
                }
            }
        }
        for ta in &lists {
            for tb in &lists {
                check_or(n, ta, tb);
            }
        }
    }
    let mut r = Rng(777);
    for n in 0..=8usize {
        let mask = if n == 0 { 0 } else { (1u32 << n) - 1 };
        for _ in 0..1500 {
            let ka = (r.next() % 5) as usize;
            let kb = (r.next() % 5) as usize;
            // biased towards few variables so that duplicates, complements and constants occur
            let pick = |r: &mut Rng| {
                let mut v = r.next() as u32 & mask;
                if r.next() % 3 == 0 {
                    v &= r.next() as u32;
                    v &= r.next() as u32;
                }
                mk(v, r.next() & 1 != 0)
            };
            let ta: Vec<Ecube> = (0..ka).map(|_| pick(&mut r)).collect();
            let tb: Vec<Ecube> = (0..kb).map(|_| pick(&mut r)).collect();
            check_or(n, &ta, &tb);
        }
    }
}

#[test]
fn soes_constants_and_variables() {
    for n in 0..=8usize {
        let z = Soes::zero(n);
        let o = Soes::one(n);
        assert!(z.is_zero() && !z.is_one());
        assert!(o.is_one() && !o.is_zero());
        assert_eq!(Lut::from(&z), Lut::zero(n));
        assert_eq!(Lut::from(&o), Lut::one(n));
        for v in 0..n {
            let s = Soes::nth_var(n, v);
            let si = Soes::nth_var_inv(n, v);
            assert!(!s.is_zero() && !s.is_one() && !si.is_zero() && !si.is_one());
            assert_eq!(Lut::from(&s), Lut::nth_var(n, v));
            assert_eq!(Lut::from(&si), !Lut::nth_var(n, v));
            let both = &s | &si;
            assert_eq!(Lut::from(&both), Lut::one(n));
            assert!(!both.is_zero());
            let same = &s | &s;
            assert_eq!(Lut::from(&same), Lut::nth_var(n, v));
            assert!(!same.is_zero() && !same.is_one());
            assert_eq!(Lut::from(&s | &z), Lut::nth_var(n, v));
            assert_eq!(Lut::from(&s | &o), Lut::one(n));
        }
    }
}
