//! Self-check for C14: Sop operations preserve meaning and return containment-irredundant covers.
//! Public API only; deterministic (own LCG).

use volute::sop::{Cube, Sop};
use volute::Lut;

struct Rng(u64);
impl Rng {
    fn next(&mut self) -> u64 {
        self.0 = self
            .0
            .wrapping_mul(6364136223846793005)
            .wrapping_add(1442695040888963407);
        self.0 >> 33
    }
    fn below(&mut self, n: usize) -> usize {
        (self.next() % n as u64) as usize
    }
}

fn table(s: &Sop) -> Vec<bool> {
    (0..1usize << s.num_vars()).map(|m| s.value(m)).collect()
}

/// What the property demands from every result of an operation
fn check_result(r: &Sop, expected: &[bool], what: &str) {
    let n = r.num_vars();
    assert_eq!(expected.len(), 1 << n);
    // Meaning, by value on every assignment and by conversion to Lut
    let t = table(r);
    assert_eq!(t, expected, "{what}: wrong function for {r}");
    let l = Lut::from(r);
    assert_eq!(l.num_vars(), n);
    for m in 0..1usize << n {
        assert_eq!(l.value(m), expected[m], "{what}: wrong Lut for {r}");
    }
    // Shape: no contradictory cube, no duplicate, no cube implying another
    let cs = r.cubes();
    for (i, c) in cs.iter().enumerate() {
        assert!(!c.is_zero(), "{what}: zero cube in {r}");
        for (j, o) in cs.iter().enumerate() {
            if i != j {
                assert!(c != o, "{what}: duplicate cube in {r}");
                assert!(!c.implies(*o), "{what}: absorbed cube in {r}");
            }
        }
    }
    // Constants
    assert_eq!(r.is_zero(), expected.iter().all(|b| !b), "{what}: is_zero on {r}");
    if r.is_one() {
        assert!(expected.iter().all(|b| *b), "{what}: is_one on {r}");
    }
}

fn check_ops(a: &Sop, b: &Sop) {
    let (ta, tb) = (table(a), table(b));
    let and: Vec<bool> = ta.iter().zip(&tb).map(|(x, y)| *x && *y).collect();
    let or: Vec<bool> = ta.iter().zip(&tb).map(|(x, y)| *x || *y).collect();
    check_result(&(a & b), &and, "and");
    check_result(&(a.clone() & b.clone()), &and, "and owned");
    check_result(&(a | b), &or, "or");
    check_result(&(a.clone() | b), &or, "or mixed");
}

fn check_not(a: &Sop) {
    let na: Vec<bool> = table(a).iter().map(|x| !x).collect();
    check_result(&!a, &na, "not");
    check_result(&!a.clone(), &na, "not owned");
}

fn all_cubes(n: usize) -> Vec<Cube> {
    Cube::all(n).collect()
}

#[test]
fn exhaustive_subsets_small() {
    // Every set of cubes for n <= 2, with every other one
    for n in 0..=2usize {
        let cubes = all_cubes(n);
        let k = cubes.len();
        let sops: Vec<Sop> = (0..1usize << k)
            .map(|s| {
                let v = (0..k).filter(|i| s >> i & 1 != 0).map(|i| cubes[i]).collect();
                Sop::from_cubes(n, v)
            })
            .collect();
        for a in &sops {
            check_not(a);
        }
        for a in &sops {
            for b in &sops {
                check_ops(a, b);
            }
        }
    }
}

#[test]
fn three_vars_lists() {
    // n = 3: every list of up to two cubes against each other, plus all single-cube complements,
    // plus lists with duplicates in arbitrary order
    let cubes = all_cubes(3);
    let mut small = vec![Sop::from_cubes(3, vec![])];
    for (i, c) in cubes.iter().enumerate() {
        small.push(Sop::from_cubes(3, vec![*c]));
        for d in &cubes[i + 1..] {
            small.push(Sop::from_cubes(3, vec![*d, *c]));
        }
    }
    for a in &small {
        check_not(a);
        for b in small.iter().step_by(3) {
            check_ops(a, b);
        }
    }
    let mut rng = Rng(14);
    for _ in 0..3000 {
        let mk = |rng: &mut Rng| {
            let len = rng.below(9);
            let mut v: Vec<Cube> = (0..len).map(|_| cubes[rng.below(cubes.len())]).collect();
            if len > 0 && rng.below(2) == 0 {
                let d = v[rng.below(len)];
                v.push(d);
            }
            Sop::from_cubes(3, v)
        };
        let a = mk(&mut rng);
        let b = mk(&mut rng);
        check_not(&a);
        check_ops(&a, &b);
    }
}

fn random_sop(rng: &mut Rng, n: usize, max_cubes: usize) -> Sop {
    let len = rng.below(max_cubes + 1);
    let mut v = Vec::new();
    for _ in 0..len {
        let dense = rng.below(3);
        let (mut pos, mut neg) = (0u32, 0u32);
        for i in 0..n {
            match rng.below(3 + 2 * dense) {
                0 => pos |= 1 << i,
                1 => neg |= 1 << i,
                _ => (),
            }
        }
        v.push(Cube::from_mask(pos, neg));
    }
    Sop::from_cubes(n, v)
}

#[test]
fn random_lists_up_to_ten_vars() {
    let mut rng = Rng(1414);
    for n in 0..=10usize {
        for _ in 0..60 {
            let a = random_sop(&mut rng, n, 12);
            let b = random_sop(&mut rng, n, 12);
            check_ops(&a, &b);
            if a.num_cubes() <= 8 {
                check_not(&a);
            }
        }
    }
}

#[test]
fn nested_expressions() {
    let mut rng = Rng(4141);
    for n in 0..=5usize {
        for _ in 0..150 {
            let mut s = random_sop(&mut rng, n, 5);
            let mut t = table(&s);
            for _ in 0..4 {
                match rng.below(3) {
                    0 => {
                        s = !s;
                        t = t.iter().map(|x| !x).collect();
                    }
                    1 => {
                        let o = random_sop(&mut rng, n, 5);
                        t = t.iter().zip(table(&o)).map(|(x, y)| *x && y).collect();
                        s = s & o;
                    }
                    _ => {
                        let o = random_sop(&mut rng, n, 5);
                        t = t.iter().zip(table(&o)).map(|(x, y)| *x || y).collect();
                        s = o | s;
                    }
                }
                check_result(&s, &t, "nested");
            }
        }
    }
}

#[test]
fn constants_and_variables() {
    for n in 0..=4usize {
        let size = 1usize << n;
        let zero = Sop::zero(n);
        let one = Sop::one(n);
        assert!(zero.is_zero() && !zero.is_one());
        assert!(one.is_one() && !one.is_zero());
        check_result(&!&zero, &vec![true; size], "not zero");
        check_result(&!&one, &vec![false; size], "not one");
        assert!((!&zero).is_one());
        for i in 0..n {
            let x = Sop::nth_var(n, i);
            let nx = Sop::nth_var_inv(n, i);
            assert!(!x.is_one() && !x.is_zero() && !nx.is_one() && !nx.is_zero());
            check_result(&(&x & &nx), &vec![false; size], "x & !x");
            check_result(&(&x | &nx), &vec![true; size], "x | !x");
            check_result(&!&x, &table(&nx), "!x");
            check_result(&(&x & &one), &table(&x), "x & 1");
            check_result(&(&x | &zero), &table(&x), "x | 0");
        }
    }
}

#[test]
fn zero_cubes_in_operands() {
    // The explicit zero cube only fits a 32-variable Sop; check the value on sampled assignments
    let mut rng = Rng(32);
    let c1 = Cube::from_vars(&[0, 5], &[31]);
    let c2 = Cube::from_vars(&[7], &[0]);
    let a = Sop::from_cubes(32, vec![Cube::zero(), c1, Cube::zero()]);
    let b = Sop::from_cubes(32, vec![c2, Cube::zero()]);
    let z = Sop::from_cubes(32, vec![Cube::zero()]);
    let masks: Vec<usize> = (0..2000)
        .map(|_| ((rng.next() << 16 ^ rng.next()) & 0xffff_ffff) as usize)
        .chain([0usize, 0xffff_ffff, 0x21, 0x80, 0x8000_0021])
        .collect();
    let results = [
        (&a & &b, 0),
        (&a | &b, 1),
        (!&a, 2),
        (&z & &a, 3),
        (&z | &a, 4),
        (!&z, 5),
    ];
    for (r, k) in &results {
        for c in r.cubes() {
            assert!(!c.is_zero());
            for o in r.cubes() {
                assert!(c == o || !c.implies(*o));
            }
        }
        for &m in &masks {
            let (va, vb) = (c1.value(m), c2.value(m));
            let e = match k {
                0 => va && vb,
                1 => va || vb,
                2 => !va,
                3 => false,
                4 => va,
                _ => true,
            };
            assert_eq!(r.value(m), e, "case {k} mask {m:x}: {r}");
        }
    }
    assert!(results[3].0.is_zero());
    assert!(!results[5].0.is_zero());
}

#[test]
fn lut_round_trip() {
    let mut rng = Rng(7);
    for n in 0..=7usize {
        let size = 1usize << n;
        let count = if n <= 3 { 1usize << size } else { 40 };
        for k in 0..count {
            let mut l = Lut::zero(n);
            let mut ones = Vec::new();
            for m in 0..size {
                let bit = if n <= 3 { k >> m & 1 != 0 } else { rng.below(2) == 0 };
                if bit {
                    l.set_bit(m);
                    ones.push(m);
                }
            }
            let s = Sop::from(&l);
            assert_eq!(s.num_vars(), n);
            // Minterm cover: exactly one full cube per true assignment
            let mut got: Vec<Cube> = s.cubes().to_vec();
            let mut want: Vec<Cube> = ones.iter().map(|m| Cube::minterm(n, *m)).collect();
            got.sort();
            want.sort();
            assert_eq!(got, want);
            assert_eq!(s.is_zero(), ones.is_empty());
            if s.is_one() {
                assert_eq!(ones.len(), size);
            }
            for m in 0..size {
                assert_eq!(s.value(m), l.value(m));
            }
            assert_eq!(Lut::from(&s), l);
            assert_eq!(Lut::from(s.clone()), l);
            // And operations on minterm covers
            check_not(&s);
            check_ops(&s, &Sop::from(!&l));
        }
    }
}
