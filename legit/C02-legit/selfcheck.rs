//! Self-check for property C02: equality, hashing and ordering of truth tables are extensional.
//! Public API only. Every value is mirrored by a plain `Vec<bool>` model; after every step the
//! block view must be well formed and equal to the model, and `==`, `Hash`, `Ord` must agree with
//! the model on every pair of values seen.

use std::cmp::Ordering;
use std::collections::hash_map::DefaultHasher;
use std::hash::{Hash, Hasher};
use volute::{Lut, Lut0, Lut1, Lut10, Lut12, Lut2, Lut3, Lut4, Lut5, Lut6, Lut7, Lut8, Lut9};

struct Rng(u64);
impl Rng {
    fn next(&mut self) -> u64 {
        self.0 = self.0.wrapping_mul(6364136223846793005).wrapping_add(1442695040888963407);
        let x = self.0;
        (x ^ (x >> 29)).wrapping_mul(0xbf58476d1ce4e5b9) ^ (x >> 17)
    }
    fn below(&mut self, n: usize) -> usize {
        (self.next() % n as u64) as usize
    }
}

fn hash_of<T: Hash>(t: &T) -> u64 {
    let mut h = DefaultHasher::new();
    t.hash(&mut h);
    h.finish()
}

fn model_blocks(n: usize, m: &[bool]) -> Vec<u64> {
    assert_eq!(m.len(), 1 << n);
    let mut b = vec![0u64; std::cmp::max(1, (1usize << n) / 64)];
    for (i, v) in m.iter().enumerate() {
        if *v {
            b[i / 64] |= 1 << (i % 64);
        }
    }
    b
}

/// The block view is well formed and holds exactly the model
fn check_blocks(n: usize, blocks: &[u64], m: &[bool], what: &str) {
    assert_eq!(blocks.len(), std::cmp::max(1, (1usize << n) / 64), "{what}");
    if n < 6 {
        assert_eq!(blocks[0] >> (1 << n), 0, "bits above 2^n after {what}");
    }
    assert_eq!(blocks, &model_blocks(n, m)[..], "{what}");
}

/// Documented order: number of variables first, then the table as a big integer
fn model_cmp(a: &[bool], b: &[bool]) -> Ordering {
    a.len().cmp(&b.len()).then_with(|| a.iter().rev().cmp(b.iter().rev()))
}

fn m_flip(m: &[bool], v: usize) -> Vec<bool> {
    (0..m.len()).map(|i| m[i ^ (1 << v)]).collect()
}
fn m_swap(m: &[bool], a: usize, b: usize) -> Vec<bool> {
    (0..m.len())
        .map(|i| {
            let (ba, bb) = ((i >> a) & 1, (i >> b) & 1);
            m[(i & !(1 << a) & !(1 << b)) | (bb << a) | (ba << b)]
        })
        .collect()
}
fn m_cof(m: &[bool], v: usize, val: usize) -> Vec<bool> {
    (0..m.len()).map(|i| m[(i & !(1 << v)) | (val << v)]).collect()
}
fn m_from_cof(c0: &[bool], c1: &[bool], v: usize) -> Vec<bool> {
    (0..c0.len()).map(|i| if (i >> v) & 1 == 1 { c1[i] } else { c0[i] }).collect()
}

/// One random step on a dynamic Lut, mirrored on the model
fn step_lut(rng: &mut Rng, l: &mut Lut, m: &mut Vec<bool>, other: &(Lut, Vec<bool>)) -> String {
    let n = l.num_vars();
    let nb = 1usize << n;
    let op = rng.below(if n == 0 { 12 } else { 22 });
    match op {
        0 => {
            l.not_inplace();
            m.iter_mut().for_each(|b| *b = !*b);
        }
        1 => {
            *l = !&*l;
            m.iter_mut().for_each(|b| *b = !*b);
        }
        2 => {
            *l &= &other.0;
            m.iter_mut().zip(&other.1).for_each(|(a, b)| *a &= *b);
        }
        3 => {
            *l = &*l | &other.0;
            m.iter_mut().zip(&other.1).for_each(|(a, b)| *a |= *b);
        }
        4 => {
            l.xor_inplace(&other.0);
            m.iter_mut().zip(&other.1).for_each(|(a, b)| *a ^= *b);
        }
        5 => {
            let (i, v) = (rng.below(nb), rng.below(2) == 1);
            l.set_value(i, v);
            m[i] = v;
        }
        6 => {
            let i = rng.below(nb);
            l.set_bit(i);
            m[i] = true;
        }
        7 => {
            let i = rng.below(nb);
            l.unset_bit(i);
            m[i] = false;
        }
        8 => *l = Lut::from_blocks(n, l.blocks()),
        9 => *l = Lut::from_hex_string(n, &l.to_hex_string()).unwrap(),
        10 => *l = l.clone(),
        11 => {
            // not twice through the by-value operator
            *l = !!l.clone();
        }
        12 => {
            let v = rng.below(n);
            l.flip_inplace(v);
            *m = m_flip(m, v);
        }
        13 => {
            let v = rng.below(n);
            *l = l.flip(v);
            *m = m_flip(m, v);
        }
        14 => {
            let (a, b) = (rng.below(n), rng.below(n));
            l.swap_inplace(a, b);
            *m = m_swap(m, a, b);
        }
        15 if n >= 2 => {
            let a = rng.below(n - 1);
            l.swap_adjacent_inplace(a);
            *m = m_swap(m, a, a + 1);
        }
        16 | 17 => {
            let v = rng.below(n);
            let (c0, c1) = l.cofactors(v);
            check_blocks(n, c0.blocks(), &m_cof(m, v, 0), "cofactor0");
            check_blocks(n, c1.blocks(), &m_cof(m, v, 1), "cofactor1");
            if op == 16 {
                *l = c0;
                *m = m_cof(m, v, 0);
            } else {
                *l = c1;
                *m = m_cof(m, v, 1);
            }
        }
        18 => {
            let v = rng.below(n);
            *l = Lut::from_cofactors(l, &other.0, v);
            *m = m_from_cof(m, &other.1, v);
        }
        19 => {
            let v = rng.below(n);
            let (c0, c1) = l.cofactors(v);
            *l = Lut::from_cofactors(&c0, &c1, v);
        }
        _ if n > 6 => *l = l.swap(0, n - 1).swap(n - 1, 0),
        20 => {
            // canonical forms are public results too: they must be well formed
            let c = l.npn_canonization().0;
            let cm: Vec<bool> = (0..nb).map(|i| c.value(i)).collect();
            check_blocks(n, c.blocks(), &cm, "npn_canonization");
            let c = l.p_canonization().0;
            let cm: Vec<bool> = (0..nb).map(|i| c.value(i)).collect();
            check_blocks(n, c.blocks(), &cm, "p_canonization");
            assert_eq!(cm.iter().filter(|b| **b).count(), m.iter().filter(|b| **b).count());
        }
        _ => {
            let c = l.n_canonization().0;
            let cm: Vec<bool> = (0..nb).map(|i| c.value(i)).collect();
            check_blocks(n, c.blocks(), &cm, "n_canonization");
        }
    }
    format!("op {op} on {n} vars")
}

fn constructors(n: usize, rng: &mut Rng) -> Vec<(Lut, Vec<bool>)> {
    let nb = 1usize << n;
    let cnt = |i: usize| i.count_ones() as usize;
    let mut ret: Vec<(Lut, Vec<bool>)> = vec![
        (Lut::zero(n), vec![false; nb]),
        (Lut::one(n), vec![true; nb]),
        (Lut::parity(n), (0..nb).map(|i| cnt(i) % 2 == 1).collect()),
        (Lut::majority(n), (0..nb).map(|i| cnt(i) >= (n + 1) / 2).collect()),
    ];
    for k in 0..=n + 1 {
        ret.push((Lut::threshold(n, k), (0..nb).map(|i| cnt(i) >= k).collect()));
        ret.push((Lut::equals(n, k), (0..nb).map(|i| cnt(i) == k).collect()));
    }
    for v in 0..n {
        ret.push((Lut::nth_var(n, v), (0..nb).map(|i| (i >> v) & 1 == 1).collect()));
    }
    for _ in 0..3 {
        let s = rng.next() as usize;
        ret.push((Lut::symmetric(n, s), (0..nb).map(|i| (s >> cnt(i)) & 1 == 1).collect()));
        let m: Vec<bool> = (0..nb).map(|_| rng.below(2) == 1).collect();
        ret.push((Lut::from_blocks(n, &model_blocks(n, &m)), m));
    }
    ret
}

/// `==`, `Hash`, `Ord` against the model on all pairs
fn check_pairs(pool: &[(Lut, Vec<bool>)]) {
    let hashes: Vec<u64> = pool.iter().map(|p| hash_of(&p.0)).collect();
    for (i, (a, ma)) in pool.iter().enumerate() {
        for (j, (b, mb)) in pool.iter().enumerate() {
            let same = ma == mb;
            assert_eq!(a == b, same, "eq {a} {b}");
            assert_eq!(a != b, !same);
            assert_eq!(a.cmp(b) == Ordering::Equal, same, "cmp {a} {b}");
            assert_eq!(a.cmp(b), model_cmp(ma, mb), "order {a} {b}");
            assert_eq!(a.partial_cmp(b), Some(a.cmp(b)));
            assert_eq!(a.cmp(b), b.cmp(a).reverse());
            if same {
                assert_eq!(hashes[i], hashes[j], "hash {a} {b}");
            }
        }
    }
}

#[test]
fn lut_random_histories() {
    let mut rng = Rng(0xC02);
    let mut mixed: Vec<(Lut, Vec<bool>)> = Vec::new();
    for n in 0..=12usize {
        let cons = constructors(n, &mut rng);
        for (l, m) in &cons {
            check_blocks(n, l.blocks(), m, "constructor");
            for (i, v) in m.iter().enumerate() {
                assert_eq!(l.value(i), *v);
            }
        }
        let mut pool = cons.clone();
        let (walks, steps) = if n <= 6 { (40, 40) } else if n <= 9 { (12, 25) } else { (4, 12) };
        for _ in 0..walks {
            let (mut l, mut m) = cons[rng.below(cons.len())].clone();
            for _ in 0..steps {
                let other = &pool[rng.below(pool.len())];
                let what = step_lut(&mut rng, &mut l, &mut m, other);
                check_blocks(n, l.blocks(), &m, &what);
                if rng.below(8) == 0 && pool.len() < 60 {
                    pool.push((l.clone(), m.clone()));
                }
            }
            // the same function rebuilt bit by bit from scratch is indistinguishable
            let mut fresh = Lut::zero(n);
            for (i, v) in m.iter().enumerate() {
                fresh.set_value(i, *v);
            }
            assert_eq!(fresh, l);
            assert_eq!(hash_of(&fresh), hash_of(&l));
            assert_eq!(fresh.cmp(&l), Ordering::Equal);
            if pool.len() < 60 {
                pool.push((l, m));
            }
        }
        check_pairs(&pool);
        mixed.extend(pool.into_iter().take(6));
    }
    // pairs with different numbers of variables
    check_pairs(&mixed);
}

/// Every function of up to 4 variables, every single transform
#[test]
fn lut_exhaustive_small() {
    for n in 0..=4usize {
        let nb = 1usize << n;
        for f in 0..(1u64 << nb) {
            let m: Vec<bool> = (0..nb).map(|i| (f >> i) & 1 == 1).collect();
            let l = Lut::from_blocks(n, &[f]);
            check_blocks(n, l.blocks(), &m, "from_blocks");
            let nm: Vec<bool> = m.iter().map(|b| !*b).collect();
            check_blocks(n, l.not().blocks(), &nm, "not");
            check_blocks(n, (!&l).blocks(), &nm, "!");
            assert_eq!(l.not().not(), l);
            for v in 0..n {
                check_blocks(n, l.flip(v).blocks(), &m_flip(&m, v), "flip");
                let (c0, c1) = l.cofactors(v);
                check_blocks(n, c0.blocks(), &m_cof(&m, v, 0), "cofactor0");
                check_blocks(n, c1.blocks(), &m_cof(&m, v, 1), "cofactor1");
                assert_eq!(Lut::from_cofactors(&c0, &c1, v), l);
                for w in 0..n {
                    check_blocks(n, l.swap(v, w).blocks(), &m_swap(&m, v, w), "swap");
                }
            }
            if n <= 3 || f % 97 == 0 {
                for i in 0..nb {
                    for val in [false, true] {
                        let mut l2 = l.clone();
                        l2.set_value(i, val);
                        let mut m2 = m.clone();
                        m2[i] = val;
                        check_blocks(n, l2.blocks(), &m2, "set_value");
                        assert_eq!(l2 == l, m2 == m);
                        assert_eq!(hash_of(&l2) == hash_of(&l) || m2 != m, true);
                        assert_eq!(l2.cmp(&l), model_cmp(&m2, &m));
                    }
                }
            }
        }
    }
}

macro_rules! static_histories {
    ($name:ident, $ty:ty, $n:expr) => {
        #[test]
        fn $name() {
            let n: usize = $n;
            let nb = 1usize << n;
            let mut rng = Rng(0xC02_0000 + n as u64);
            let mut pool: Vec<($ty, Vec<bool>)> = vec![
                (<$ty>::zero(), vec![false; nb]),
                (<$ty>::one(), vec![true; nb]),
                (<$ty>::default(), vec![false; nb]),
                (<$ty>::parity(), (0..nb).map(|i| i.count_ones() % 2 == 1).collect()),
            ];
            for k in 0..=n + 1 {
                let m: Vec<bool> = (0..nb).map(|i| i.count_ones() as usize >= k).collect();
                pool.push((<$ty>::threshold(k), m));
            }
            for _ in 0..30 {
                let (mut l, mut m) = pool[rng.below(pool.len())].clone();
                for _ in 0..30 {
                    let other = pool[rng.below(pool.len())].clone();
                    let op = rng.below(if n == 0 { 8 } else { 14 });
                    match op {
                        0 => {
                            l = !l;
                            m.iter_mut().for_each(|b| *b = !*b);
                        }
                        1 => {
                            l.not_inplace();
                            m.iter_mut().for_each(|b| *b = !*b);
                        }
                        2 => {
                            l ^= other.0;
                            m.iter_mut().zip(&other.1).for_each(|(a, b)| *a ^= *b);
                        }
                        3 => {
                            l = l & other.0;
                            m.iter_mut().zip(&other.1).for_each(|(a, b)| *a &= *b);
                        }
                        4 => {
                            l |= other.0;
                            m.iter_mut().zip(&other.1).for_each(|(a, b)| *a |= *b);
                        }
                        5 => {
                            let (i, v) = (rng.below(nb), rng.below(2) == 1);
                            l.set_value(i, v);
                            m[i] = v;
                        }
                        6 => l = <$ty>::from_blocks(l.blocks()),
                        7 => {
                            // through the dynamic type and back
                            let d: Lut = l.into();
                            check_blocks(n, d.blocks(), &m, "into Lut");
                            l = <$ty>::try_from(d).unwrap();
                        }
                        8 => {
                            let v = rng.below(n);
                            l.flip_inplace(v);
                            m = m_flip(&m, v);
                        }
                        9 => {
                            let (a, b) = (rng.below(n), rng.below(n));
                            l = l.swap(a, b);
                            m = m_swap(&m, a, b);
                        }
                        10 | 11 => {
                            let v = rng.below(n);
                            let c = l.cofactors(v);
                            l = if op == 10 { c.0 } else { c.1 };
                            m = m_cof(&m, v, op - 10);
                        }
                        12 => {
                            let v = rng.below(n);
                            l = <$ty>::from_cofactors(&l, &other.0, v);
                            m = m_from_cof(&m, &other.1, v);
                        }
                        _ => {
                            let i = rng.below(nb);
                            if rng.below(2) == 1 {
                                l.set_bit(i);
                                m[i] = true;
                            } else {
                                l.unset_bit(i);
                                m[i] = false;
                            }
                        }
                    }
                    check_blocks(n, l.blocks(), &m, &format!("static op {op}"));
                }
                if pool.len() < 40 {
                    pool.push((l, m));
                }
            }
            for (a, ma) in &pool {
                for (b, mb) in &pool {
                    let same = ma == mb;
                    assert_eq!(a == b, same);
                    assert_eq!(a.cmp(b) == Ordering::Equal, same);
                    assert_eq!(a.cmp(b), model_cmp(ma, mb));
                    assert_eq!(a.partial_cmp(b), Some(a.cmp(b)));
                    if same {
                        assert_eq!(hash_of(a), hash_of(b));
                    }
                    // the dynamic counterparts behave alike
                    let (da, db): (Lut, Lut) = ((*a).into(), (*b).into());
                    assert_eq!(da == db, same);
                    assert_eq!(hash_of(&da) == hash_of(&db) || !same, true);
                    assert_eq!(da.cmp(&db), a.cmp(b));
                }
            }
        }
    };
}

static_histories!(static_0, Lut0, 0);
static_histories!(static_1, Lut1, 1);
static_histories!(static_2, Lut2, 2);
static_histories!(static_3, Lut3, 3);
static_histories!(static_4, Lut4, 4);
static_histories!(static_5, Lut5, 5);
static_histories!(static_6, Lut6, 6);
static_histories!(static_7, Lut7, 7);
static_histories!(static_8, Lut8, 8);
static_histories!(static_9, Lut9, 9);
static_histories!(static_10, Lut10, 10);
static_histories!(static_12, Lut12, 12);

#[test]
fn integer_conversions() {
    for f in 0..=255u8 {
        let l = Lut3::from(f);
        assert_eq!(l.blocks(), &[f as u64]);
        assert_eq!(u8::from(!l), !f);
        assert_eq!((!l).blocks(), &[(!f) as u64]);
    }
    for f in (0..=u16::MAX).step_by(7) {
        let l = Lut4::from(f);
        assert_eq!((!l).blocks(), &[(!f) as u64]);
        assert_eq!(u16::from(l.flip(3)), f.rotate_left(8));
    }
    let l = Lut5::from(0xdead_beefu32);
    assert_eq!((!l).blocks(), &[0x2152_4110u64]);
    assert_eq!(u32::from(l.flip(4)), 0xbeef_deadu32);
    let l = Lut6::from(0x0123_4567_89ab_cdefu64);
    assert_eq!(u64::from(l.flip(5)), 0x89ab_cdef_0123_4567u64);
}
