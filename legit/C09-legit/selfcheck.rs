//! Self-check for property C09: text forms are exact and fixed-width, parsing accepts exactly
//! the well-formed strings (upper-case digits are optional: either Err, or the same meaning).
//! Public API only; everything is compared with a tiny model working on Vec<bool>.

use volute::*;

/// What the crate says about one function: (hex, bin, display, lower-hex fmt, binary fmt)
type Printed = (String, String, String, String, String);

macro_rules! static_dispatch {
    ($n:expr, $f:ident, $($arg:expr),*) => {
        match $n {
            0 => $f!(Lut0, $($arg),*), 1 => $f!(Lut1, $($arg),*), 2 => $f!(Lut2, $($arg),*),
            3 => $f!(Lut3, $($arg),*), 4 => $f!(Lut4, $($arg),*), 5 => $f!(Lut5, $($arg),*),
            6 => $f!(Lut6, $($arg),*), 7 => $f!(Lut7, $($arg),*), 8 => $f!(Lut8, $($arg),*),
            9 => $f!(Lut9, $($arg),*), 10 => $f!(Lut10, $($arg),*), 11 => $f!(Lut11, $($arg),*),
            12 => $f!(Lut12, $($arg),*),
            _ => unreachable!(),
        }
    };
}

macro_rules! print_static {
    ($t:ident, $bits:expr) => {{
        let mut l = <$t>::zero();
        for (i, &b) in $bits.iter().enumerate() {
            if b {
                l.set_bit(i);
            }
        }
        (l.to_hex_string(), l.to_bin_string(), format!("{}", l), format!("{:x}", l), format!("{:b}", l))
    }};
}

macro_rules! parse_static {
    ($t:ident, $s:expr) => {
        <$t>::from_hex_string($s).ok().map(|l| {
            assert!(l.blocks().len() == std::cmp::max(1, l.num_bits() / 64));
            if l.num_bits() < 64 {
                assert_eq!(l.blocks()[0] >> l.num_bits(), 0, "malformed table from {:?}", $s);
            }
            ((0..l.num_bits()).map(|i| l.value(i)).collect::<Vec<bool>>(), l.to_hex_string())
        })
    };
}

fn print_dyn(n: usize, bits: &[bool]) -> Printed {
    let mut l = Lut::zero(n);
    for (i, &b) in bits.iter().enumerate() {
        if b {
            l.set_bit(i);
        }
    }
    (l.to_hex_string(), l.to_bin_string(), format!("{}", l), format!("{:x}", l), format!("{:b}", l))
}

fn print_stat(n: usize, bits: &[bool]) -> Printed {
    static_dispatch!(n, print_static, bits)
}

/// Parsed table as bits, and its re-printed hex form
fn parse_dyn(n: usize, s: &str) -> Option<(Vec<bool>, String)> {
    Lut::from_hex_string(n, s).ok().map(|l| {
        assert_eq!(l.num_vars(), n);
        assert_eq!(l.blocks().len(), std::cmp::max(1, l.num_bits() / 64));
        if l.num_bits() < 64 {
            assert_eq!(l.blocks()[0] >> l.num_bits(), 0, "malformed table from {:?}", s);
        }
        ((0..l.num_bits()).map(|i| l.value(i)).collect(), l.to_hex_string())
    })
}

fn parse_stat(n: usize, s: &str) -> Option<(Vec<bool>, String)> {
    static_dispatch!(n, parse_static, s)
}

fn width(n: usize) -> usize {
    std::cmp::max(1, (1usize << n) / 4)
}

/// Model printer: most significant bit first
fn model_print(n: usize, bits: &[bool]) -> Printed {
    let nb = 1usize << n;
    assert_eq!(bits.len(), nb);
    let bin: String = (0..nb).rev().map(|i| if bits[i] { '1' } else { '0' }).collect();
    let mut hex = String::new();
    for d in (0..width(n)).rev() {
        let mut v = 0u32;
        for k in 0..4 {
            if 4 * d + k < nb && bits[4 * d + k] {
                v |= 1 << k;
            }
        }
        hex.push(std::char::from_digit(v, 16).unwrap());
    }
    assert!(hex.chars().all(|c| c.is_ascii_digit() || ('a'..='f').contains(&c)));
    let disp = format!("Lut{}({})", n, hex);
    let b = format!("Lut{}({})", n, bin);
    (hex, bin, disp.clone(), disp, b)
}

#[derive(Debug, PartialEq)]
enum Expect {
    Must(Vec<bool>),
    May(Vec<bool>),
    Reject,
}

/// Model parser
fn model_parse(n: usize, s: &str) -> Expect {
    let nb = 1usize << n;
    let chars: Vec<char> = s.chars().collect();
    if chars.len() != width(n) || !s.is_ascii() {
        return Expect::Reject;
    }
    let mut bits = vec![false; nb];
    let mut upper = false;
    for (pos, &c) in chars.iter().enumerate() {
        let v = match c {
            '0'..='9' => c as usize - '0' as usize,
            'a'..='f' => c as usize - 'a' as usize + 10,
            'A'..='F' => {
                upper = true;
                c as usize - 'A' as usize + 10
            }
            _ => return Expect::Reject,
        };
        let d = chars.len() - 1 - pos;
        for k in 0..4 {
            if (v >> k) & 1 != 0 {
                if 4 * d + k >= nb {
                    return Expect::Reject; // digit too large for n < 2
                }
                bits[4 * d + k] = true;
            }
        }
    }
    if upper {
        Expect::May(bits)
    } else {
        Expect::Must(bits)
    }
}

fn check_parse(n: usize, s: &str) {
    let expect = model_parse(n, s);
    for (kind, got) in [("Lut", parse_dyn(n, s)), ("StaticLut", parse_stat(n, s))] {
        match (&expect, got) {
            (Expect::Must(bits), Some((g, re))) => {
                assert_eq!(&g, bits, "{} n={} {:?}: wrong function", kind, n, s);
                assert_eq!(re, s, "{} n={} {:?}: does not print back", kind, n, s);
            }
            (Expect::Must(_), None) => panic!("{} n={} {:?}: well-formed input rejected", kind, n, s),
            (Expect::May(bits), Some((g, re))) => {
                assert_eq!(&g, bits, "{} n={} {:?}: upper-case means something else", kind, n, s);
                assert_eq!(re, s.to_ascii_lowercase());
            }
            (Expect::May(_), None) => {}
            (Expect::Reject, Some(_)) => panic!("{} n={} {:?}: ill-formed input accepted", kind, n, s),
            (Expect::Reject, None) => {}
        }
    }
}

fn check_print(n: usize, bits: &[bool]) -> String {
    let m = model_print(n, bits);
    assert_eq!(print_dyn(n, bits), m, "Lut n={}", n);
    assert_eq!(print_stat(n, bits), m, "StaticLut n={}", n);
    assert_eq!(m.0.len(), width(n));
    assert_eq!(m.1.len(), 1 << n);
    // Parsing a printed table gives it back
    assert_eq!(model_parse(n, &m.0), Expect::Must(bits.to_vec()));
    check_parse(n, &m.0);
    m.0
}

struct Rng(u64);
impl Rng {
    fn next(&mut self) -> u64 {
        // splitmix64
        self.0 = self.0.wrapping_add(0x9e3779b97f4a7c15);
        let mut z = self.0;
        z = (z ^ (z >> 30)).wrapping_mul(0xbf58476d1ce4e5b9);
        z = (z ^ (z >> 27)).wrapping_mul(0x94d049bb133111eb);
        z ^ (z >> 31)
    }
    fn below(&mut self, k: usize) -> usize {
        (self.next() % k as u64) as usize
    }
    fn bits(&mut self, n: usize, style: usize) -> Vec<bool> {
        let nb = 1usize << n;
        match style % 4 {
            0 => (0..nb).map(|_| self.next() & 1 != 0).collect(),
            1 => (0..nb).map(|_| self.next() & 7 == 0).collect(),
            2 => (0..nb).map(|_| self.next() & 7 != 0).collect(),
            _ => {
                let mut v = vec![false; nb];
                let i = self.below(nb);
                v[i] = true;
                v
            }
        }
    }
}

const ALPHABET: &[&str] = &[
    "0", "1", "2", "3", "4", "5", "6", "7", "8", "9", "a", "b", "c", "d", "e", "f", "A", "B", "C",
    "D", "E", "F", "+", "-", " ", "g", "x", "G", "_", "\u{e9}", "\u{20ac}", "\u{ff11}", "\u{1f600}",
];

#[test]
fn printing_exhaustive_small() {
    for n in 0..=4usize {
        let nb = 1usize << n;
        for f in 0u32..(1u32 << nb) {
            let bits: Vec<bool> = (0..nb).map(|i| (f >> i) & 1 != 0).collect();
            check_print(n, &bits);
        }
    }
}

#[test]
fn printing_sampled_large() {
    let mut rng = Rng(0xC09);
    for n in 5..=12usize {
        let nb = 1usize << n;
        check_print(n, &vec![false; nb]);
        check_print(n, &vec![true; nb]);
        for i in [0, 1, 3, 4, 31, nb / 2 - 1, nb / 2, nb - 5, nb - 4, nb - 1] {
            let mut v = vec![false; nb];
            v[i] = true;
            check_print(n, &v);
        }
        for k in 0..40 {
            let bits = rng.bits(n, k);
            check_print(n, &bits);
        }
    }
}

#[test]
fn parsing_exhaustive_short_strings() {
    // every string over the alphabet of 0..=width+2 symbols
    for n in 0..=3usize {
        let max_len = width(n) + 2;
        let mut level: Vec<String> = vec![String::new()];
        for _ in 0..=max_len {
            for s in &level {
                check_parse(n, s);
            }
            level = level
                .iter()
                .flat_map(|s| ALPHABET.iter().map(move |a| format!("{}{}", s, a)))
                .collect();
        }
    }
    // all 4-symbol strings over a reduced alphabet for n = 3 and n = 4 (width)
    let small = ["0", "7", "9", "a", "f", "A", "F", "+", "-", " ", "g", "x", "\u{e9}"];
    for n in 3..=4usize {
        for a in small {
            for b in small {
                for c in small {
                    for d in small {
                        check_parse(n, &format!("{}{}{}{}", a, b, c, d));
                    }
                }
            }
        }
    }
}

#[test]
fn parsing_mutated_strings() {
    let mut rng = Rng(0x9C0);
    for n in 0..=12usize {
        let w = width(n);
        let reps = if n <= 8 { 12 } else { 4 };
        for k in 0..reps {
            let bits = rng.bits(n, k);
            let s = model_print(n, &bits).0;
            check_parse(n, &s);
            check_parse(n, &s.to_ascii_uppercase());
            // lengths width-2 ..= width+2 by dropping / adding characters at both ends
            for cut in 1..=2 {
                if w >= cut {
                    check_parse(n, &s[cut..]);
                    check_parse(n, &s[..w - cut]);
                }
            }
            for a in ALPHABET {
                check_parse(n, &format!("{}{}", a, s));
                check_parse(n, &format!("{}{}", s, a));
                check_parse(n, &format!("{}{}{}", a, s, a));
                check_parse(n, &format!("0{}{}", a, s));
                // sign or prefix taking the place of leading digits (same length)
                check_parse(n, &format!("{}{}", a, &s[1..]));
                if w >= 2 {
                    check_parse(n, &format!("0{}{}", a, &s[2..]));
                }
            }
            // one substituted symbol at interesting and random positions
            let mut positions = vec![0, w - 1, w / 2, w.saturating_sub(2)];
            for p in [15usize, 16, 17, 31, 32] {
                if p < w {
                    positions.push(p);
                    positions.push(w - 1 - p);
                }
            }
            for _ in 0..6 {
                positions.push(rng.below(w));
            }
            for p in positions {
                for a in ALPHABET {
                    check_parse(n, &format!("{}{}{}", &s[..p], a, &s[p + 1..]));
                }
            }
        }
        // fully random strings of every length 0..=width+2 (short widths only: they are cheap)
        if w <= 16 {
            for len in 0..=w + 2 {
                for _ in 0..200 {
                    let hexish = rng.below(4) != 0;
                    let s: String = (0..len)
                        .map(|_| ALPHABET[rng.below(if hexish { 22 } else { ALPHABET.len() })])
                        .collect();
                    check_parse(n, &s);
                }
            }
        }
    }
}

#[test]
fn digit_too_large_for_tiny_luts() {
    for (n, max) in [(0usize, 1u32), (1, 3)] {
        for v in 0..16u32 {
            let s = std::char::from_digit(v, 16).unwrap().to_string();
            assert_eq!(Lut::from_hex_string(n, &s).is_ok(), v <= max, "n={} {:?}", n, s);
            check_parse(n, &s);
            check_parse(n, &s.to_ascii_uppercase());
        }
    }
    assert_eq!(Lut0::from_hex_string("1").unwrap(), Lut0::one());
    assert_eq!(Lut1::from_hex_string("2").unwrap(), Lut1::nth_var(0));
    assert!(Lut1::from_hex_string("4").is_err());
    assert!(Lut2::from_hex_string("f").is_ok());
}
