//! Self-check for property C07: `bdd_complexity` is the number of internal nodes of the shared
//! complement-edge ROBDD (variable n-1 at the root, variable 0 at the bottom), literals excluded.
//!
//! The reference below builds the diagram top-down on `Vec<bool>` truth tables with an explicit
//! unique table keyed on (variable, low edge, high edge). It shares nothing with the crate.

use std::collections::HashMap;
use volute::{Lut, Lut0, Lut1, Lut10, Lut11, Lut2, Lut3, Lut4, Lut5, Lut6, Lut7, Lut8, Lut9};

type Tt = Vec<bool>;
/// Edge: (node id, complemented); node 0 is the terminal ONE
type Edge = (usize, bool);

struct RefBdd {
    unique: HashMap<(usize, Edge, Edge), usize>,
    memo: HashMap<Tt, Edge>,
    literals: usize,
}

impl RefBdd {
    fn new() -> Self {
        RefBdd {
            unique: HashMap::new(),
            memo: HashMap::new(),
            literals: 0,
        }
    }

    fn mk(&mut self, tt: &[bool]) -> Edge {
        if tt.len() == 1 {
            return (0, !tt[0]);
        }
        if let Some(e) = self.memo.get(tt) {
            return *e;
        }
        let var = tt.len().trailing_zeros() as usize - 1;
        let (l, h) = tt.split_at(tt.len() / 2);
        let lo = self.mk(l);
        let hi = self.mk(h);
        let e = if lo == hi {
            lo
        } else {
            // then-edge regular
            let neg = hi.1;
            let key = (var, (lo.0, lo.1 ^ neg), (hi.0, false));
            let next = self.unique.len() + 1;
            let mut fresh = false;
            let id = *self.unique.entry(key).or_insert_with(|| {
                fresh = true;
                next
            });
            if fresh && lo.0 == 0 && hi.0 == 0 {
                self.literals += 1;
            }
            (id, neg)
        };
        self.memo.insert(tt.to_vec(), e);
        e
    }

    fn count(&self) -> usize {
        self.unique.len() - self.literals
    }
}

fn reference(fns: &[Tt]) -> usize {
    let mut b = RefBdd::new();
    for f in fns {
        b.mk(f);
    }
    b.count()
}

fn to_lut(n: usize, f: &Tt) -> Lut {
    let mut l = Lut::zero(n);
    for (i, b) in f.iter().enumerate() {
        if *b {
            l.set_bit(i);
        }
    }
    l
}

macro_rules! static_count {
    ($t:ty, $fns:expr) => {{
        let v: Vec<$t> = $fns
            .iter()
            .map(|f: &Tt| {
                let mut l = <$t>::zero();
                for (i, b) in f.iter().enumerate() {
                    if *b {
                        l.set_bit(i);
                    }
                }
                l
            })
            .collect();
        <$t>::bdd_complexity(&v)
    }};
}

fn static_complexity(n: usize, fns: &[Tt]) -> usize {
    match n {
        0 => static_count!(Lut0, fns),
        1 => static_count!(Lut1, fns),
        2 => static_count!(Lut2, fns),
        3 => static_count!(Lut3, fns),
        4 => static_count!(Lut4, fns),
        5 => static_count!(Lut5, fns),
        6 => static_count!(Lut6, fns),
        7 => static_count!(Lut7, fns),
        8 => static_count!(Lut8, fns),
        9 => static_count!(Lut9, fns),
        10 => static_count!(Lut10, fns),
        11 => static_count!(Lut11, fns),
        _ => unreachable!(),
    }
}

fn dyn_complexity(n: usize, fns: &[Tt]) -> usize {
    let v: Vec<Lut> = fns.iter().map(|f| to_lut(n, f)).collect();
    Lut::bdd_complexity(&v)
}

fn check(n: usize, fns: &[Tt]) {
    let expected = reference(fns);
    assert_eq!(dyn_complexity(n, fns), expected, "Lut n={n} {fns:?}");
    assert_eq!(static_complexity(n, fns), expected, "LutN n={n} {fns:?}");
}

fn check_invariances(n: usize, fns: &[Tt]) {
    check(n, fns);
    let expected = reference(fns);
    // order
    let mut rev: Vec<Tt> = fns.to_vec();
    rev.reverse();
    assert_eq!(dyn_complexity(n, &rev), expected);
    assert_eq!(static_complexity(n, &rev), expected);
    // duplicates
    let mut dup: Vec<Tt> = fns.to_vec();
    dup.extend(fns.iter().cloned());
    assert_eq!(dyn_complexity(n, &dup), expected);
    assert_eq!(static_complexity(n, &dup), expected);
    // complementing any listed function
    for i in 0..fns.len() {
        let mut c: Vec<Tt> = fns.to_vec();
        c[i] = c[i].iter().map(|b| !b).collect();
        assert_eq!(dyn_complexity(n, &c), expected);
        assert_eq!(static_complexity(n, &c), expected);
        c.push(fns[i].clone());
        assert_eq!(dyn_complexity(n, &c), expected);
    }
}

struct Rng(u64);
impl Rng {
    fn next(&mut self) -> u64 {
        // splitmix64
        self.0 = self.0.wrapping_add(0x9E37_79B9_7F4A_7C15);
        let mut z = self.0;
        z = (z ^ (z >> 30)).wrapping_mul(0xBF58_476D_1CE4_E5B9);
        z = (z ^ (z >> 27)).wrapping_mul(0x94D0_49BB_1331_11EB);
        z ^ (z >> 31)
    }
    fn below(&mut self, k: usize) -> usize {
        (self.next() % k as u64) as usize
    }
}

fn from_int(n: usize, v: u64) -> Tt {
    (0..1usize << n).map(|i| (v >> i) & 1 != 0).collect()
}

/// Structured function: assembled from a small pool of sub-tables of 2^k bits (possibly
/// complemented), so that many sub-functions are shared, constant, literal or independent
fn structured(n: usize, rng: &mut Rng) -> Tt {
    let k = rng.below(n + 1);
    let pool_size = 1 + rng.below(4);
    let mut pool: Vec<Tt> = Vec::new();
    for _ in 0..pool_size {
        let t: Tt = match rng.below(6) {
            0 => vec![false; 1 << k],
            1 if k > 0 => {
                let v = rng.below(k);
                (0..1usize << k).map(|i| (i >> v) & 1 != 0).collect()
            }
            2 => (0..1usize << k).map(|i| i.count_ones() % 2 == 1).collect(),
            3 => (0..1usize << k).map(|i| 2 * i.count_ones() as usize > k).collect(),
            4 if k > 1 => {
                // independent of the top variable of the piece
                let half: Tt = (0..1usize << (k - 1)).map(|_| rng.next() & 1 != 0).collect();
                [half.clone(), half].concat()
            }
            _ => (0..1usize << k).map(|_| rng.next() & 1 != 0).collect(),
        };
        pool.push(t);
    }
    let mut f = Tt::new();
    while f.len() < 1 << n {
        let p = &pool[rng.below(pool_size)];
        let neg = rng.below(3) == 0;
        f.extend(p.iter().map(|b| b ^ neg));
    }
    f
}

#[test]
fn empty_list() {
    for n in 0..=11 {
        assert_eq!(dyn_complexity(n, &[]), 0);
        assert_eq!(static_complexity(n, &[]), 0);
    }
}

#[test]
fn exhaustive_small() {
    // all single functions up to 4 variables
    for n in 0..=4usize {
        for v in 0..1u64 << (1 << n) {
            check(n, &[from_int(n, v)]);
        }
    }
    // all pairs up to 3 variables
    for n in 0..=3usize {
        let m = 1u64 << (1 << n);
        for a in 0..m {
            for b in 0..m {
                check(n, &[from_int(n, a), from_int(n, b)]);
            }
        }
    }
    // all triples up to 2 variables
    for n in 0..=2usize {
        let m = 1u64 << (1 << n);
        for a in 0..m {
            for b in 0..m {
                for c in 0..m {
                    check_invariances(n, &[from_int(n, a), from_int(n, b), from_int(n, c)]);
                }
            }
        }
    }
}

#[test]
fn literals_and_constants() {
    for n in 0..=11usize {
        let mut fns: Vec<Tt> = vec![vec![false; 1 << n], vec![true; 1 << n]];
        for v in 0..n {
            fns.push((0..1usize << n).map(|i| (i >> v) & 1 != 0).collect());
            fns.push((0..1usize << n).map(|i| (i >> v) & 1 == 0).collect());
        }
        assert_eq!(reference(&fns), 0);
        check(n, &fns);
        for f in &fns {
            check(n, &[f.clone()]);
        }
    }
}

#[test]
fn known_functions() {
    for n in 2..=11usize {
        // parity: one node per variable but the bottom one
        let parity: Tt = (0..1usize << n).map(|i| i.count_ones() % 2 == 1).collect();
        assert_eq!(reference(&[parity.clone()]), n - 1);
        check_invariances(n, &[parity.clone()]);
        // conjunction of all variables
        let and: Tt = (0..1usize << n).map(|i| i + 1 == 1 << n).collect();
        assert_eq!(reference(&[and.clone()]), n - 1);
        let maj: Tt = (0..1usize << n).map(|i| 2 * i.count_ones() as usize > n).collect();
        check_invariances(n, &[parity, and, maj]);
    }
}

#[test]
fn structured_and_random_lists() {
    let mut rng = Rng(0xC07);
    for n in 0..=11usize {
        let rounds = if n <= 6 { 400 } else if n <= 9 { 150 } else { 60 };
        for r in 0..rounds {
            let len = rng.below(5);
            let fns: Vec<Tt> = (0..len)
                .map(|_| {
                    if rng.below(4) == 0 {
                        (0..1usize << n).map(|_| rng.next() & 1 != 0).collect()
                    } else {
                        structured(n, &mut rng)
                    }
                })
                .collect();
            if r % 4 == 0 {
                check_invariances(n, &fns);
            } else {
                check(n, &fns);
            }
        }
    }
}
