#!/usr/bin/env python3
"""Regenerate the table of §9.8 in DESIGN.md from legit/*/meta.json."""
import glob, json, os
ROOT = os.path.dirname(os.path.dirname(os.path.abspath(__file__)))
rows = []
for p in sorted(glob.glob(os.path.join(ROOT, "legit", "*", "meta.json"))):
    m = json.load(open(p))
    notes = [l.strip() for l in m.get("agent_notes", "").splitlines() if l.strip() and not l.startswith("#")]
    first = (notes[0] if notes else "")[:100].replace("|", "/")
    ch = m.get("checks", {})
    fired = [k for k, v in ch.items() if v.get("exit") == 1 or v.get("detected")]
    extra = (" — " + m["history"]) if m.get("history") else ""
    rows.append("| %s | %s | %d checks run, fired: %s%s |" % (m["name"], first, len(ch), ", ".join(fired) if fired else "none", extra))
d = open(os.path.join(ROOT, "DESIGN.md")).read().split("\n")
h = next(i for i, l in enumerate(d) if l.startswith("| id | what changed (first line of the author's notes)"))
e = next(i for i in range(h, len(d)) if d[i].strip() == "")
d[h + 2:e] = rows
open(os.path.join(ROOT, "DESIGN.md"), "w").write("\n".join(d))
print("rows", len(rows))
