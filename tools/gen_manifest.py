#!/usr/bin/env python3
"""Regenerates /verif/MANIFEST.json from the table below (single source for the per-property texts)."""
import json, os, subprocess
ROOT = os.path.dirname(os.path.dirname(os.path.abspath(__file__)))

# id -> (technique, level text, level note, design ref); only properties listed here are claimed
CLAIMED = {
 "C01": ("property-based testing (proptest, seeded, sharded) against a definition-level bit-vector model + exhaustive enumeration of small sizes; aliased operands and operands placed at different offsets modulo 16 bytes; both build profiles",
         "Generated-input search: all 28 syntactic forms of NOT/AND/OR/XOR are executed on generated pairs of tables (n up to 12/14, dense, word-structured, sparse, related pairs) and on ALL pairs for n<=2 (quick) / n<=3 (thorough), for Lut and every LutN alias, and compared with the Boolean definition on every assignment. Exploration: absence of a counterexample among the cases explored, not a proof.",
         "Trusts value() and from_blocks()/set_bit() as observation/loading channel and the harness model (model.rs).", "DESIGN.md §4 C01"),
 "C02": ("stateful model-based property testing: generated API-call histories (constructors, conversions, operators, transforms, iterator adaptors and consumers) with an invariant checked after every step; exhaustive single steps for n<=3; libFuzzer history target (thorough)",
         "Histories of public API calls over a pool of tables are interpreted on the library; after every step the written slot must be well formed (block count, no bit >= 2^n) and ==, !=, cmp, partial_cmp, Hash must agree with equality of the functions read through value(), against every slot and a from_blocks twin; HashSet/BTreeSet sizes at the end. Exploration over histories (inductive step + long sequences).",
         "Trusts value() as the functional view; what operations compute is judged by other properties.", "DESIGN.md §4 C02"),
 "C03": ("property-based testing against the definition (bit-exchange / cofactor definitions evaluated per assignment) + exhaustive n<=3/4; all index regimes; top-variable pairs on 15..20-variable tables; libFuzzer target transforms (thorough)",
         "flip, swap, swap_adjacent (copying/in-place, both argument orders), cofactors, from_cofactors of arbitrary c0/c1 and recomposition are compared with the definition on every assignment for generated dense tables with regime-balanced index pairs and exhaustively for n<=3/4.",
         "Trusts value()/from_blocks(); stray bits not inspected (C02).", "DESIGN.md §4 C03"),
 "C04": ("property-based testing against an independent group-enumeration oracle (next-permutation x polarity counter), exhaustive n<=3/4, hook-based exhaustive walk validation n<=8, metamorphic orbit invariance; libFuzzer target canon (thorough)",
         "Representatives are compared with the minimum of the orbit enumerated by the harness itself (all functions n<=3/4, generated n<=8); the hard-coded/generated swap and flip walks are replayed through the hook and shown to visit every group element once in a closed cycle for n<=8 (exhaustive, deterministic); canon(g.f)=canon(f) metamorphic checks. Exploration for the sampled f; the walk check is complete for the tables it covers.",
         "Hook repeats the size dispatch; n>=9 not explored; oracle and library share only the definition of the group action.", "DESIGN.md §4 C04"),
 "C05": ("property-based testing with an independent certificate evaluator; exhaustive n<=3/4; every case re-canonizes the returned representative (fixed-point inputs); libFuzzer target witness (thorough)",
         "The returned (perm, mask) is applied to the argument by the harness exactly as the property words it and must reproduce the returned table; validity of perm and mask; exhaustive for all f n<=3/4 x 3 groups x 2 families, generated up to n=8.",
         "Any valid certificate accepted; a panicking canonization is C04's business.", "DESIGN.md §4 C05"),
 "C06": ("property-based testing with constructive class-targeted generation (tables built from cofactors + 0-2 bit perturbations) against the cofactor definition; exhaustive n<=3/4; libFuzzer target decomp (thorough)",
         "top_decomposition / is_pos_unate / is_neg_unate are compared with the priority chain evaluated on definition-level cofactors for every variable of generated tables of every class (and near-misses), n<=12, and for all functions n<=3/4.",
         "DecompositionType compared via its Debug name.", "DESIGN.md §4 C06"),
 "C07": ("property-based testing against a textbook complement-edge ROBDD (unique table) + metamorphic variants (order, duplicates, complements, lists of more than 4096 words); exhaustive singles n<=3/4 and pairs n<=2/3; libFuzzer target bdd (thorough)",
         "bdd_complexity of generated lists of 0..4 functions (n<=11, sub-function-sharing classes) must equal the node count of the harness's own shared ROBDD and be invariant under reordering, duplication and complementation; exhaustive small domains.",
         "Oracle shares no code with bdd.rs; variable order n-1 at the root as stated.", "DESIGN.md §4 C07"),
 "C08": ("property-based testing against big-integer comparison (opposed-pair generator), complete iterator runs n<=3/4, hook-based successor/iterator checks from generated tables incl. word carries; std iterator adaptors (nth/skip/step_by/count/last/fold/for_each/collect/filter/max/by_ref, also beyond the end) against repeated next()",
         "cmp/partial_cmp/relations/==/sort/hex-string order versus the harness's numeric comparison on generated tuples (also different n) and all pairs n<=2/3; full all_functions runs; through the hooks, successor steps and iterator tails from arbitrary tables (low words all ones, near the top) versus model +1.",
         "The carry path uses the cfg-guarded hooks (public path needs 2^64 steps).", "DESIGN.md §4 C08"),
 "C09": ("property-based testing: formatter oracle + grammar/corruption-based string generator against an explicit accept-set oracle; formatting traits under non-default format specifications; the library's own wrapped prints and other wrappings offered to the parser; exhaustive small alphabets; libFuzzer hex target (thorough)",
         "All five text forms versus a definition-level formatter; from_hex_string on printed tables with structured corruptions (signs, non-hex, upper case, multi-byte UTF-8, length +-1/2, chunk-boundary positions) versus the accept set `exactly width hex digits fitting 2^n bits`; exhaustive over a 20-symbol alphabet up to width+1 for n<=3/4.",
         "Upper-case digits may be accepted or rejected.", "DESIGN.md §4 C09"),
 "C10": ("differential property-based testing: the same generated API history interpreted on Lut and on LutN, outcomes compared step by step; conversion round trips; canonization certificates at N = 8..12; a fixed-size type beyond the aliases (StaticLut<13,128>); exhaustive u8/u16 integer conversions; libFuzzer differential history target (thorough)",
         "For N in 0..=12 generated histories over the whole common API give identical outcomes (blocks, certificates, classifications, counts, strings, orderings, Ok/Err) on both families; Lut<->LutN conversions lossless and failing exactly on size mismatch; integer conversions bit-exact (exhaustive for u8/u16).",
         "Default excluded (Lut::default() has 0 variables); canonization N>=9 not exercised.", "DESIGN.md §4 C10"),
 "C11": ("exhaustive enumeration of constructor arguments (n <= 13 for LutN incl. StaticLut<13,128>, n <= 16 for Lut) against popcount definitions, plus generated count masks",
         "Every (family, n, constructor, argument) with k in 0..=n+2 and the large values up to usize::MAX is enumerated and compared with the popcount definition on every assignment; symmetric(c) additionally with generated c.",
         "Finite domain enumerated completely except symmetric(c).", "DESIGN.md §4 C11"),
 "C12": ("property-based testing against a literal-set model with constructed witness assignments; exhaustive all cube pairs n<=4/5; libFuzzer cube target (thorough)",
         "Cubes built through every constructor and chains of & are compared with the literal-set model: literals, value, canonical zero, equality, implies/intersects decided semantically (enumeration for n<=5, theorem + witness for wide cubes), implies_lut by definition, minterm, counts, Cube::all completeness.",
         "Variables < 32; minterm(32,.) outside the domain.", "DESIGN.md §4 C12"),
 "C13": ("property-based testing against parity / OR-of-parities models; exhaustive ecube pairs n<=4/5 and Soes term lists; Soes over 9..32 variables compared pointwise (soes-wide); aliased operands",
         "Ecube value/xor/not/equality/enumeration and Soes value/or/Lut conversion/is_zero/is_one against the definitions, generated up to 32 variables (ecube) / n=8 (soes), exhaustive small domains.",
         "Variables < 32.", "DESIGN.md §4 C13"),
 "C14": ("property-based testing over generated expression trees with designed-redundancy cube lists; every intermediate result checked semantically and structurally; exhaustive n<=2 subsets / n=3 lists; covers of more than 2^16 cubes (manycubes); expressions over 11..32 variables compared pointwise and on literal sets (wide); aliased operands; libFuzzer expression target (thorough)",
         "Every &, |, ! result inside generated expressions denotes the operation on the operand functions (value, Lut, cubes) and contains no contradictory, duplicate or absorbed cube; is_zero exact, is_one sound; Lut<->Sop minterm cover round trip.",
         "! and & bounded by operand size (exponential), not by time.", "DESIGN.md §4 C14"),
 "C15": ("property-based testing against definition-level ANF coefficients; exhaustive all functions n<=3/4; operator checks on generated mixed-polarity cube lists, also over 11..32 variables (wide); aliased operands",
         "Esop::from(&lut).cubes() equals exactly the set of monomials with ANF coefficient 1 (no negative literal, no repetition), round trips, history independence; ^ and ! pointwise.",
         "Cube order unconstrained.", "DESIGN.md §4 C15"),
 "C16": ("property-based testing with the harness's own tokenizer/parser/evaluator for the printed grammar (round trip print -> parse -> evaluate vs value()), also under non-default format specifications and for texts of hundreds of KiB (hugetext); exhaustive small objects; libFuzzer display target (thorough)",
         "to_string() of cubes, exclusive cubes, Sop, Esop, Soes is parsed completely by an independent reader and evaluates like value() on all/sampled assignments; index order; distinct cubes print distinctly.",
         "Grammar as stated in the property.", "DESIGN.md §4 C16"),
 "C17": ("fault-style enumeration of out-of-range/mismatched arguments under catch_unwind in two build profiles + differential property-based testing between build profiles (peer process executes the same generated history)",
         "Every index/assignment/size-mismatch/slice-length misuse listed in the property is enumerated for n<=8 in both profiles and must panic; generated valid histories must give identical outcomes in the release build and the debug-assertions+overflow-checks build with no panic on either side.",
         "Panics observed by unwinding; unreachable peer = inconclusive.", "DESIGN.md §4 C17"),
 "C18": ("property-based testing against an exact dynamic-programming optimum and an independent cost model; exhaustive single functions n<=2/3 and pairs n<=1/2; metamorphic embedding; planted multi-output covers as a sound upper bound (n = 4..6, 2..4 outputs)",
         "The three MIP optimizers' results are validated (function, implicants) and their cost under the documented model is compared with the exact optimum computed by the harness's own DP over all cubes/XOR terms (multi-output with sharing), or with a sound bound where the DP is out of reach.",
         "HiGHS trusted to terminate; 3 outputs at n>=3 and 2 outputs at n=4 only bounded.", "DESIGN.md §4 C18"),
 "C19": ("statistical property-based testing of random() with analytically fixed thresholds (false alarm < 2^-200), single thread and 16 barrier-released threads; GF(2) rank of the draws and per-draw dependence on every variable",
         "256 draws per size per thread, for Lut and LutN, n<=12: every draw well formed, every assignment takes both values, draws differ, threads differ.",
         "thread_rng cannot be seeded; bias below the stated thresholds is not detected.", "DESIGN.md §4 C19"),
}
PENDING_REASON = "check not built yet (work in progress; the property is decidable by this technique, see DESIGN.md §4)"

def main():
    hooks_commit = subprocess.run(["git","-C","/repo","log","--format=%H","--grep=^verif-hooks"],capture_output=True,text=True).stdout.split()
    props=[json.loads(l)["id"] for l in open(os.path.join(ROOT,"properties.jsonl"))]
    checks=[]; na=[]
    for p in props:
        if p in CLAIMED:
            tech, text, note, ref = CLAIMED[p]
            checks.append({
              "property_id": p,
              "quick_cmd": "./check %s quick" % p,
              "thorough_cmd": "./check %s thorough" % p,
              "evidence_file": "evidence/%s.json" % p,
              "replay_cmd_template": "./check replay {path}",
              "engine": "vharness-mip" if p == "C18" else "vharness",
              "level_claimed": {"category":"exploration","text":text,"design_ref":ref},
              "level_note": note,
              "technique": tech,
            })
        else:
            na.append({"property_id": p, "reason": PENDING_REASON})
    m={
      "version": 1,
      "setup_cmd": "./check build all",
      "hooks": {
        "guard": "cargo feature verif-hooks (off by default)",
        "enable": "the harness crate depends on volute by path /repo with features [\"verif-hooks\", \"rand\"] (C18 adds optim-mip)",
        "baseline_off_cmd": "cd /repo && cargo test --workspace --no-fail-fast --offline",
        "source_commits": hooks_commit,
        "add_only": True,
      },
      "engines": [
        {"name":"vharness","path":"harness/","serves_properties":[c["property_id"] for c in checks if c["property_id"]!="C18"],
         "kind_free_text":"Rust crate: seeded proptest runners sharded over threads + exhaustive enumerators + definition-level oracles; built in two profiles (release / release+debug-assertions+overflow-checks); driver ./check merges evidence"},
        {"name":"vfuzz","path":"harness/fuzz/ (cargo-fuzz, libFuzzer)","serves_properties":["C02","C03","C04","C05","C06","C07","C09","C10","C12","C14","C16"],
         "kind_free_text":"coverage-guided byte-level targets (thorough tier) decoding into the same Case types and judged by the same oracles; every stop is converted to a replay file and re-judged by vcheck in both profiles before it is reported"},
        {"name":"vharness-mip","path":"harness/ (bin vcheck_mip, feature mip -> volute/optim-mip, HiGHS)","serves_properties":["C18"],
         "kind_free_text":"same engine, separate binary so that HiGHS is only linked where it is needed"},
      ],
      "checks": checks,
      "not_applicable": na,
      "notes": "All checks: exit 0 = held on everything explored, 1 = VIOLATION property=<id> replay=<path>, 2 = inconclusive (build failure, watchdog). VERIF_SEED selects the case stream. known_findings.json lists open findings (none) and repaired defects (fixed: lines).",
    }
    json.dump(m, open(os.path.join(ROOT,"MANIFEST.json"),"w"), indent=1)
    print("claimed", len(checks), "n/a", len(na))
if __name__=="__main__": main()
