#!/usr/bin/env python3
"""Regenerates /verif/MANIFEST.json from the table below (single source for the per-property texts)."""
import json, os, subprocess
ROOT = os.path.dirname(os.path.dirname(os.path.abspath(__file__)))

# id -> (technique, level text, level note, design ref); only properties listed here are claimed
CLAIMED = {
 "C01": ("property-based testing (proptest) against a definition-level bit-vector model + exhaustive enumeration of small sizes, both build profiles",
         "Generated-input search: every syntactic form of NOT/AND/OR/XOR is executed on generated (and, for n<=3, all) pairs of tables of both families and compared assignment by assignment with the Boolean definition. Exploration, not proof: absence of a counterexample among the cases explored.",
         "Trusts value(), from_blocks()/set_bit() as observation/loading channel and the harness's own model; sizes 0..=14.",
         "DESIGN.md §4 C01"),
}
PENDING_REASON = "check not built yet (work in progress; the property is decidable by this technique, see DESIGN.md §4)"

def main():
    hooks_commit = subprocess.run(["git","-C","/repo","log","--format=%H","--grep=^verif-hooks"],capture_output=True,text=True).stdout.split()
    props=[json.loads(l)["id"] for l in open(os.path.join(ROOT,"properties.jsonl"))]
    checks=[]; na=[]
    for p in props:
        if p in CLAIMED:
            tech, text, note, ref = CLAIMED[p]
            checks.append({
              "property_id": p,
              "quick_cmd": "./check %s quick" % p,
              "thorough_cmd": "./check %s thorough" % p,
              "evidence_file": "evidence/%s.json" % p,
              "replay_cmd_template": "./check replay {path}",
              "engine": "vharness",
              "level_claimed": {"category":"exploration","text":text,"design_ref":ref},
              "level_note": note,
              "technique": tech,
            })
        else:
            na.append({"property_id": p, "reason": PENDING_REASON})
    m={
      "version": 1,
      "setup_cmd": "./check build all",
      "hooks": {
        "guard": "cargo feature verif-hooks (off by default)",
        "enable": "the harness crate depends on volute by path /repo with features [\"verif-hooks\", \"rand\"] (C18 adds optim-mip)",
        "baseline_off_cmd": "cd /repo && cargo test --workspace --no-fail-fast --offline",
        "source_commits": hooks_commit,
        "add_only": True,
      },
      "engines": [
        {"name":"vharness","path":"harness/","serves_properties":[c["property_id"] for c in checks],
         "kind_free_text":"Rust crate: seeded proptest runners sharded over threads + exhaustive enumerators + definition-level oracles; built in two profiles (release / release+debug-assertions+overflow-checks); driver ./check merges evidence"},
      ],
      "checks": checks,
      "not_applicable": na,
      "notes": "All checks: exit 0 = held on everything explored, 1 = VIOLATION property=<id> replay=<path>, 2 = inconclusive (build failure, watchdog). VERIF_SEED selects the case stream. known_findings.json lists open findings (none) and repaired defects (fixed: lines).",
    }
    json.dump(m, open(os.path.join(ROOT,"MANIFEST.json"),"w"), indent=1)
    print("claimed", len(checks), "n/a", len(na))
if __name__=="__main__": main()
