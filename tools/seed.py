#!/usr/bin/env python3
"""Handling of seeded breaking changes (written by independent sub-agents).

  seed.py verify <src-dir> <name>   confirm the claims in a scratch worktree (patch applies; the
                                    55+4 baseline tests pass with it; demo fails with it and passes
                                    without) and, if confirmed, store it as /verif/seeded/<name>/
  seed.py run <name> [props...]     apply seeded/<name>/patch.diff to /repo, run the quick checks
                                    of the given properties (default: the property it targets),
                                    undo it (git checkout -- .), record the outcome in meta.json
"""
import json, os, shutil, subprocess, sys, time
ROOT = os.path.dirname(os.path.dirname(os.path.abspath(__file__)))
ENV = dict(os.environ, CARGO_NET_OFFLINE="true", CARGO_TERM_COLOR="never")

def sh(cmd, cwd=None, timeout=3600):
    r = subprocess.run(cmd, cwd=cwd, env=ENV, stdout=subprocess.PIPE, stderr=subprocess.STDOUT, text=True, timeout=timeout)
    return r.returncode, r.stdout

def count_pass(out):
    return sum(int(l.split("ok. ")[1].split(" passed")[0]) for l in out.splitlines() if l.startswith("test result: ok."))

def verify(src, name):
    prop = name.split("-")[0]
    wt = "/tmp/seedverify/" + name
    shutil.rmtree(wt, ignore_errors=True)
    sh(["git", "-C", "/repo", "worktree", "prune"])
    code, out = sh(["git", "-C", "/repo", "worktree", "add", "--detach", wt, "HEAD"])
    assert code == 0, out
    shutil.copy("/repo/Cargo.lock", wt)
    res = {"property": prop, "name": name}
    try:
        patch = os.path.join(src, "patch.diff"); demo = os.path.join(src, "demo.rs")
        feats = ["--features", "optim-mip"] if prop == "C18" else []
        demofeats = feats if prop == "C18" else (["--features", "verif-hooks"] if "verif_" in open(demo).read() else [])
        tdir = ["--target-dir", "/tmp/seedverify/target"]
        if (prop == "C17" and not os.environ.get("SEED_DEMO_DEBUG")) or os.environ.get("SEED_DEMO_RELEASE"):
            demofeats = demofeats + ["--release"]  # profile differences only show in release builds
        # demo passes without the change
        os.makedirs(os.path.join(wt, "tests"), exist_ok=True)
        shutil.copy(demo, os.path.join(wt, "tests", "demo.rs"))
        code, out = sh(["cargo", "test", "--offline", "--test", "demo"] + demofeats + tdir, cwd=wt)
        res["demo_without_change"] = "pass" if code == 0 else "FAIL"
        os.remove(os.path.join(wt, "tests", "demo.rs"))
        # patch applies
        code, out = sh(["git", "apply", patch], cwd=wt)
        res["patch_applies"] = (code == 0)
        if code != 0:
            res["error"] = out[-500:]
            return res
        _, stat = sh(["git", "diff", "--stat"], cwd=wt)
        res["diffstat"] = stat.strip().splitlines()[-1] if stat.strip() else ""
        # baseline suite passes with the change (tests/ must not exist for this)
        code, out = sh(["cargo", "test", "--offline"] + tdir, cwd=wt)
        res["baseline_with_change"] = {"exit": code, "passed": count_pass(out)}
        # demo fails with the change
        shutil.copy(demo, os.path.join(wt, "tests", "demo.rs"))
        code, out = sh(["cargo", "test", "--offline", "--test", "demo"] + demofeats + tdir, cwd=wt)
        res["demo_with_change"] = "fail" if code != 0 else "PASSES (not a demonstration)"
        res["confirmed"] = (res["demo_without_change"] == "pass" and res["baseline_with_change"]["exit"] == 0 and res["baseline_with_change"]["passed"] >= 59 and res["demo_with_change"] == "fail")
        if res["confirmed"]:
            dst = os.path.join(ROOT, "seeded", name)
            os.makedirs(dst, exist_ok=True)
            shutil.copy(patch, os.path.join(dst, "patch.diff"))
            shutil.copy(demo, os.path.join(dst, "demo.rs"))
            notes = os.path.join(src, "NOTES.md")
            meta = {"property": prop, "name": name, "origin": "independent sub-agent given only the property text and a scratch worktree",
                    "needs_to_manifest": "", "agent_notes": open(notes).read() if os.path.exists(notes) else "",
                    "confirmation": {k: res[k] for k in ["demo_without_change", "patch_applies", "diffstat", "baseline_with_change", "demo_with_change"]},
                    "confirmed_with": "tools/seed.py verify (scratch worktree of /repo HEAD, cargo test --offline; demo dropped in as tests/demo.rs)",
                    "checks": {}}
            json.dump(meta, open(os.path.join(dst, "meta.json"), "w"), indent=1)
        return res
    finally:
        sh(["git", "-C", "/repo", "worktree", "remove", "--force", wt])

def run(name, props):
    dst = os.path.join(ROOT, "seeded", name)
    meta = json.load(open(os.path.join(dst, "meta.json")))
    props = props or [meta["property"]]
    code, out = sh(["git", "-C", "/repo", "status", "--porcelain", "--untracked-files=no"])
    assert out.strip() == "", "/repo has uncommitted changes: " + out
    code, out = sh(["git", "-C", "/repo", "apply", os.path.join(dst, "patch.diff")])
    assert code == 0, out
    try:
        for p in props:
            t0 = time.time()
            code, out = sh([os.path.join(ROOT, "check"), p, "quick"], cwd=ROOT)
            detail = [l for l in out.splitlines() if l.startswith("DETAIL")][:1]
            viol = [l for l in out.splitlines() if l.startswith("VIOLATION")][:1]
            meta["checks"][p] = {"tier": "quick", "exit": code, "detected": code == 1, "detail": (detail[0][:400] if detail else ""), "violation_line": (viol[0] if viol else ""), "wall_s": round(time.time() - t0, 1),
                                 "harness_commit": subprocess.run(["git", "-C", ROOT, "rev-parse", "--short", "HEAD"], capture_output=True, text=True).stdout.strip()}
            print(name, p, "exit", code, (detail[0][:200] if detail else ""), flush=True)
    finally:
        sh(["git", "-C", "/repo", "checkout", "--", "."])
    json.dump(meta, open(os.path.join(dst, "meta.json"), "w"), indent=1)

if __name__ == "__main__":
    if sys.argv[1] == "verify":
        print(json.dumps(verify(sys.argv[2], sys.argv[3]), indent=1))
    elif sys.argv[1] == "run":
        run(sys.argv[2], sys.argv[3:])
