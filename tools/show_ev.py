#!/usr/bin/env python3
import json,sys
d=json.load(open(sys.argv[1]));c=d['coverage'];print('evaluations',c['evaluations'],'distinct_nontrivial',c['distinct_nontrivial'],'wall',d['wall_s'])
subs=c.get('subchecks') or c['per_profile']['fast']['subchecks']
for s in subs:
    ex=s.get('exhaustive_part') or {}
    print(' -',s['name'],'wall',round(s['wall_s'],2),'gen',s['generated']['evaluations'],'nt',s['generated']['distinct_nontrivial'],'exh',ex.get('evaluations'),'exh_nt',ex.get('distinct_nontrivial'))
    if len(sys.argv)>2:
        print('    gen labels',json.dumps(s['generated']['labels']))
        if ex: print('    exh labels',json.dumps(ex.get('labels')))
