#!/usr/bin/env python3
"""Regenerate the quick-tier columns of the table of §9.7 in DESIGN.md from evidence/*.json (quick tier evidence);
the thorough column of each row is kept unless thorough numbers are given in tools/thorough.json
({"C01": "4131626 cases, 93 s", ...})."""
import json, os, re
ROOT = os.path.dirname(os.path.dirname(os.path.abspath(__file__)))
thor = {}
tp = os.path.join(ROOT, "tools", "thorough.json")
if os.path.exists(tp):
    thor = json.load(open(tp))
d = open(os.path.join(ROOT, "DESIGN.md")).read().split("\n")
h = next(i for i, l in enumerate(d) if l.startswith("| id | quick: cases per profile"))
e = next(i for i in range(h, len(d)) if d[i].strip() == "")
old = {}
for l in d[h + 2:e]:
    cells = [c.strip() for c in l.strip().strip("|").split("|")]
    old[cells[0]] = cells[-1]
rows = []
for i in range(1, 20):
    pid = "C%02d" % i
    ev = json.load(open(os.path.join(ROOT, "evidence", pid + ".json")))
    if ev["tier"] != "quick":
        rows.append(next(l for l in d[h + 2:e] if l.startswith("| %s " % pid)))
        continue
    pp = ev["coverage"]["per_profile"]["fast"]
    subs = []
    for s in pp["subchecks"]:
        ex = (s.get("exhaustive_part") or {}).get("evaluations", 0)
        subs.append("%s %d+%d" % (s["name"], ex, s["generated"]["evaluations"]))
    rows.append("| %s | %d | %d | %d s | %s | %s |" % (pid, pp["evaluations"], ev["coverage"]["distinct_nontrivial"], round(ev["wall_s"]), ", ".join(subs), thor.get(pid, old.get(pid, ""))))
d[h + 2:e] = rows
open(os.path.join(ROOT, "DESIGN.md"), "w").write("\n".join(d))
print("ok")
