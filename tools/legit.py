#!/usr/bin/env python3
"""False-alarm test with property-preserving changes written by independent sub-agents.

  legit.py verify <src-dir> <name>   scratch worktree: patch applies, baseline tests pass with it,
                                     the agent's selfcheck passes with and without it; stores
                                     /verif/legit/<name>/{patch.diff,selfcheck.rs,meta.json}
  legit.py run <name>                apply to /repo, run EVERY quick check, undo; record which fire
"""
import json, os, shutil, subprocess, sys, time
ROOT = os.path.dirname(os.path.dirname(os.path.abspath(__file__)))
ENV = dict(os.environ, CARGO_NET_OFFLINE="true", CARGO_TERM_COLOR="never")
PROPS = ["C%02d" % i for i in range(1, 20)]

def sh(cmd, cwd=None, timeout=3600):
    r = subprocess.run(cmd, cwd=cwd, env=ENV, stdout=subprocess.PIPE, stderr=subprocess.STDOUT, text=True, timeout=timeout)
    return r.returncode, r.stdout

def count_pass(out):
    return sum(int(l.split("ok. ")[1].split(" passed")[0]) for l in out.splitlines() if l.startswith("test result: ok."))

def verify(src, name):
    prop = name.split("-")[0]
    wt = "/tmp/legitverify/" + name
    shutil.rmtree(wt, ignore_errors=True)
    sh(["git", "-C", "/repo", "worktree", "prune"])
    code, out = sh(["git", "-C", "/repo", "worktree", "add", "--detach", wt, "HEAD"]); assert code == 0, out
    shutil.copy("/repo/Cargo.lock", wt)
    res = {"property": prop, "name": name}
    try:
        patch = os.path.join(src, "patch.diff"); sc = os.path.join(src, "selfcheck.rs")
        feats = ["--features", "optim-mip"] if prop == "C18" else []
        tdir = ["--target-dir", "/tmp/legitverify/target"]
        os.makedirs(os.path.join(wt, "tests"), exist_ok=True)
        shutil.copy(sc, os.path.join(wt, "tests", "selfcheck.rs"))
        code, out = sh(["cargo", "test", "--offline", "--release", "--test", "selfcheck"] + feats + tdir, cwd=wt)
        res["selfcheck_without_change"] = "pass" if code == 0 else "FAIL"
        os.remove(os.path.join(wt, "tests", "selfcheck.rs"))
        code, out = sh(["git", "apply", patch], cwd=wt)
        res["patch_applies"] = (code == 0)
        if code != 0:
            res["error"] = out[-400:]; return res
        _, stat = sh(["git", "diff", "--stat"], cwd=wt)
        res["diffstat"] = stat.strip().splitlines()[-1] if stat.strip() else ""
        code, out = sh(["cargo", "test", "--offline"] + tdir, cwd=wt)
        res["baseline_with_change"] = {"exit": code, "passed": count_pass(out)}
        shutil.copy(sc, os.path.join(wt, "tests", "selfcheck.rs"))
        code, out = sh(["cargo", "test", "--offline", "--release", "--test", "selfcheck"] + feats + tdir, cwd=wt)
        res["selfcheck_with_change"] = "pass" if code == 0 else "FAIL"
        res["confirmed"] = res["selfcheck_without_change"] == "pass" and res["selfcheck_with_change"] == "pass" and res["baseline_with_change"]["exit"] == 0 and res["baseline_with_change"]["passed"] >= 59
        if res["confirmed"]:
            dst = os.path.join(ROOT, "legit", name); os.makedirs(dst, exist_ok=True)
            shutil.copy(patch, os.path.join(dst, "patch.diff")); shutil.copy(sc, os.path.join(dst, "selfcheck.rs"))
            notes = os.path.join(src, "NOTES.md")
            json.dump({"property": prop, "name": name, "kind": "property-preserving change (false-alarm test)",
                       "origin": "independent sub-agent given only the property text and a scratch worktree",
                       "agent_notes": open(notes).read() if os.path.exists(notes) else "",
                       "confirmation": {k: res[k] for k in ["selfcheck_without_change", "patch_applies", "diffstat", "baseline_with_change", "selfcheck_with_change"]},
                       "checks": {}}, open(os.path.join(dst, "meta.json"), "w"), indent=1)
        return res
    finally:
        sh(["git", "-C", "/repo", "worktree", "remove", "--force", wt])

def run(name, props=None):
    dst = os.path.join(ROOT, "legit", name)
    meta = json.load(open(os.path.join(dst, "meta.json")))
    code, out = sh(["git", "-C", "/repo", "status", "--porcelain", "--untracked-files=no"]); assert out.strip() == "", out
    code, out = sh(["git", "-C", "/repo", "apply", os.path.join(dst, "patch.diff")]); assert code == 0, out
    fired = []
    try:
        for p in (props or PROPS):
            code, out = sh([os.path.join(ROOT, "check"), p, "quick"], cwd=ROOT)
            detail = [l for l in out.splitlines() if l.startswith("DETAIL") or l.startswith("INCONCLUSIVE") or l.startswith("BUILD-FAILED")][:1]
            meta["checks"][p] = {"exit": code, "detail": detail[0][:500] if detail else ""}
            if code != 0:
                fired.append(p); print(name, p, "exit", code, detail[0][:300] if detail else "", flush=True)
    finally:
        sh(["git", "-C", "/repo", "checkout", "--", "."])
    meta["fired"] = fired
    meta["harness_commit"] = subprocess.run(["git", "-C", ROOT, "rev-parse", "--short", "HEAD"], capture_output=True, text=True).stdout.strip()
    json.dump(meta, open(os.path.join(dst, "meta.json"), "w"), indent=1)
    print(name, "fired:", fired, flush=True)

if __name__ == "__main__":
    if sys.argv[1] == "verify":
        print(json.dumps(verify(sys.argv[2], sys.argv[3]), indent=1))
    else:
        run(sys.argv[2], sys.argv[3:] or None)
