#!/usr/bin/env python3
"""Regenerate the table of §9.5 in DESIGN.md from seeded/*/meta.json (rows between the table header and
the first blank line after it)."""
import glob, json, os, re
ROOT = os.path.dirname(os.path.dirname(os.path.abspath(__file__)))
ROUND = {"a": 1, "b": 2, "c": 3, "d": 4, "e": 5, "f": 6, "g": 7, "h": 8, "i": 9}
rows = []
tot = caught = 0
for p in sorted(glob.glob(os.path.join(ROOT, "seeded", "*", "meta.json"))):
    m = json.load(open(p))
    name = m["name"]
    tot += 1
    parts = []
    any_caught = False
    for prop, c in m.get("checks", {}).items():
        if c.get("detected"):
            sub = re.search(r"subcheck=(\S+)", c.get("detail", "") or "")
            where = "/" + sub.group(1) if sub else (" (regress replay)" if "regression-replay" in (c.get("detail") or "") else "")
            parts.append("**caught** by %s%s" % (prop, where))
            any_caught = True
        else:
            parts.append("not caught by %s" % prop)
    parts.sort(key=lambda s: s.startswith("**"))
    caught += any_caught
    extra = ""
    if m.get("history"):
        extra = " (" + m["history"] + ")"
    rows.append("| %s | %d | %s | %s%s |" % (name, m.get("round", ROUND[name[-1]]), m.get("needs_to_manifest", "").replace("|", "\\|"), "; ".join(parts), extra.replace("|", "\\|")))
d = open(os.path.join(ROOT, "DESIGN.md")).read().split("\n")
h = next(i for i, l in enumerate(d) if l.startswith("| id | round | what it needs to manifest"))
e = next(i for i in range(h, len(d)) if d[i].strip() == "")
d[h + 2:e] = rows
open(os.path.join(ROOT, "DESIGN.md"), "w").write("\n".join(d))
print("rows", tot, "caught", caught)
