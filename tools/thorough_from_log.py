#!/usr/bin/env python3
"""tools/thorough.json (thorough column of DESIGN §9.7) from the log of a `./check all thorough` run."""
import json, re, sys, os
ROOT = os.path.dirname(os.path.dirname(os.path.abspath(__file__)))
out = {}
for l in open(sys.argv[1]):
    m = re.match(r"OK property=(C\d\d) profile=fast tier=thorough seed=\d+ evaluations=(\d+) distinct_nontrivial=\d+ wall_s=([\d.]+)", l)
    if m:
        out[m.group(1)] = "%s cases, %d s" % (m.group(2), round(float(m.group(3))))
json.dump(out, open(os.path.join(ROOT, "tools", "thorough.json"), "w"), indent=1)
print(len(out))
