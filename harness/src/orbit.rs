//! Independent orbit oracle for P / N / NPN canonization.
//!
//! The group is enumerated by the harness itself — lexicographic next-permutation x binary
//! counter over input polarities x output bit — and every element is applied to the model by
//! definition: g(y) = f(x) ^ out with x[perm[i]] = y[i] ^ mask[i]. The minimum is taken under
//! the harness's own numeric comparison (most significant assignment first). Nothing here uses
//! volute's Gray/Steinhaus-Johnson-Trotter walk tables.

use crate::model::Tt;

#[derive(Clone, Copy, Debug, PartialEq, Eq, Hash, serde::Serialize, serde::Deserialize)]
pub enum Group {
    P,
    N,
    Npn,
}

impl Group {
    pub fn name(self) -> &'static str {
        match self {
            Group::P => "p",
            Group::N => "n",
            Group::Npn => "npn",
        }
    }
}

/// lexicographic successor; false when `p` was the last permutation
pub fn next_permutation(p: &mut [u8]) -> bool {
    let n = p.len();
    if n < 2 {
        return false;
    }
    let mut i = n - 1;
    while i > 0 && p[i - 1] >= p[i] {
        i -= 1;
    }
    if i == 0 {
        return false;
    }
    let mut j = n - 1;
    while p[j] <= p[i - 1] {
        j -= 1;
    }
    p.swap(i - 1, j);
    p[i..].reverse();
    true
}

/// Apply one group element by definition.
pub fn apply(f: &Tt, perm: &[u8], mask: u32) -> Tt {
    let n = f.n;
    assert_eq!(perm.len(), n);
    let out = (mask >> n) & 1 != 0;
    Tt::from_fn(n, |y| {
        let mut x = 0usize;
        for i in 0..n {
            let b = ((y >> i) & 1) ^ ((mask as usize >> i) & 1);
            x |= b << perm[i];
        }
        f.get(x) ^ out
    })
}

/// Minimum of the orbit of f under the group, with the number of group elements examined and
/// the size of the orbit's stabiliser-free part (number of candidates that tied with the
/// minimum = |stabiliser| for the minimum).
pub struct OrbitMin {
    pub min: Tt,
    pub elements: u64,
    pub ties: u64,
}

pub fn orbit_min(f: &Tt, g: Group) -> OrbitMin {
    let n = f.n;
    let size = 1usize << n;
    let mut perm: Vec<u8> = (0..n as u8).collect();
    let mut best = f.clone();
    let mut elements = 0u64;
    let mut ties = 0u64;
    let do_perms = matches!(g, Group::P | Group::Npn);
    let do_neg = matches!(g, Group::N | Group::Npn);
    let mut idx = vec![0usize; size];
    loop {
        // idx[y] = assignment x with x[perm[i]] = y[i]
        for (y, slot) in idx.iter_mut().enumerate() {
            let mut x = 0usize;
            for i in 0..n {
                x |= ((y >> i) & 1) << perm[i];
            }
            *slot = x;
        }
        let nmask: u32 = if do_neg { 1u32 << n } else { 1 };
        for m in 0..nmask {
            // pm = the polarity mask moved to x coordinates
            let mut pm = 0usize;
            for i in 0..n {
                pm |= ((m as usize >> i) & 1) << perm[i];
            }
            let outs: &[bool] = if do_neg { &[false, true] } else { &[false] };
            for &out in outs {
                elements += 1;
                // compare candidate with best from the most significant assignment down
                let mut y = size;
                let mut smaller = false;
                let mut tie = true;
                while y > 0 {
                    y -= 1;
                    let c = f.get(idx[y] ^ pm) ^ out;
                    let b = best.get(y);
                    if c != b {
                        tie = false;
                        smaller = b; // candidate has 0 where best has 1
                        break;
                    }
                }
                if tie {
                    ties += 1;
                } else if smaller {
                    best = Tt::from_fn(n, |y| f.get(idx[y] ^ pm) ^ out);
                    ties = 1;
                }
            }
        }
        if !do_perms || !next_permutation(&mut perm) {
            break;
        }
    }
    OrbitMin {
        min: best,
        elements,
        ties,
    }
}

/// The function a (perm, mask) certificate denotes: g(y) = f(x) ^ mask[n], x[perm[i]] = y[i]^mask[i]
pub fn certificate_image(f: &Tt, perm: &[u8], mask: u32) -> Tt {
    apply(f, perm, mask)
}

pub fn is_permutation(perm: &[u8], n: usize) -> bool {
    if perm.len() != n {
        return false;
    }
    let mut seen = vec![false; n];
    for &p in perm {
        if (p as usize) >= n || seen[p as usize] {
            return false;
        }
        seen[p as usize] = true;
    }
    true
}

/// Lehmer rank of a permutation (for the walk-validation bitmaps)
pub fn perm_rank(p: &[u8]) -> usize {
    let n = p.len();
    let mut r = 0usize;
    for i in 0..n {
        let smaller = p[i + 1..].iter().filter(|&&q| q < p[i]).count();
        r = r * (n - i) + smaller;
    }
    r
}

pub fn factorial(n: usize) -> usize {
    (1..=n).product::<usize>().max(1)
}

#[cfg(test)]
mod tests {
    use super::*;

    #[test]
    fn perms_and_rank() {
        let mut p: Vec<u8> = (0..4).collect();
        let mut seen = std::collections::HashSet::new();
        loop {
            assert!(seen.insert(perm_rank(&p)));
            if !next_permutation(&mut p) {
                break;
            }
        }
        assert_eq!(seen.len(), 24);
        assert!(seen.iter().all(|r| *r < 24));
    }

    #[test]
    fn npn_classes_n3() {
        // 14 NPN classes of 3-variable functions, 80 P classes of... (known: 14 / npn)
        let mut reps = std::collections::HashSet::new();
        for x in 0..256u64 {
            let f = Tt::from_words(3, vec![x]);
            reps.insert(orbit_min(&f, Group::Npn).min);
        }
        assert_eq!(reps.len(), 14);
    }
}
