//! Thin object-safe adapters over volute's two truth-table families.
//!
//! Every check is written once against `dyn Tab` / `dyn Family` and runs on the dynamic
//! `Lut` and on every fixed-size alias `Lut0`..`Lut12`. The adapters add no logic: each
//! method is one call of the corresponding public volute API (the syntactic form is
//! selected by an index so that *every* operator form is exercised).

use std::any::Any;
use std::cmp::Ordering;
use std::collections::hash_map::DefaultHasher;
use std::hash::{Hash, Hasher};

use volute::{
    Lut, Lut0, Lut1, Lut10, Lut11, Lut12, Lut2, Lut3, Lut4, Lut5, Lut6, Lut7, Lut8, Lut9,
};

#[derive(Clone, Copy, Debug, PartialEq, Eq, Hash, serde::Serialize, serde::Deserialize)]
pub enum Fam {
    Dyn,
    Static,
}

impl Fam {
    pub fn get(self) -> &'static dyn Family {
        match self {
            Fam::Dyn => &DynFam,
            Fam::Static => &StatFam,
        }
    }
    pub fn max_n(self) -> usize {
        match self {
            Fam::Dyn => 14,
            Fam::Static => 13,
        }
    }
    pub fn label(self) -> &'static str {
        match self {
            Fam::Dyn => "Lut",
            Fam::Static => "LutN",
        }
    }
}

#[derive(Clone, Copy, Debug, PartialEq, Eq, Hash, serde::Serialize, serde::Deserialize)]
pub enum BinOp {
    And,
    Or,
    Xor,
}

pub const NOT_FORMS: [&str; 4] = ["a.not()", "t.not_inplace()", "!a", "!&a"];
pub const BIN_FORMS: [&str; 8] = [
    "a.op(&b)",
    "t.op_inplace(&b)",
    "a op b",
    "a op &b",
    "&a op b",
    "&a op &b",
    "t op= b",
    "t op= &b",
];

pub type T = Box<dyn Tab>;

pub trait Tab: Send {
    fn as_any(&self) -> &dyn Any;
    fn fam(&self) -> Fam;
    fn dup(&self) -> T;
    /// Clone::clone_from(self, src)
    fn clone_from_(&mut self, src: &dyn Tab);
    // queries
    fn n(&self) -> usize;
    fn num_bits(&self) -> usize;
    fn num_blocks(&self) -> usize;
    fn blocks(&self) -> Vec<u64>;
    fn value(&self, m: usize) -> bool;
    fn get_bit(&self, m: usize) -> bool;
    // bit mutators
    fn set_value(&mut self, m: usize, b: bool);
    fn set_bit(&mut self, m: usize);
    fn unset_bit(&mut self, m: usize);
    // operators, every syntactic form
    fn not_form(&self, form: usize) -> T;
    fn bin_form(&self, op: BinOp, form: usize, rhs: &dyn Tab) -> T;
    /// the same with the operands copied to chosen offsets modulo 16 bytes (place 0: self at 0, rhs
    /// at 8; 1: self at 8, rhs at 0; 2: both at 8) — for the fixed-size types, whose words are inline
    fn bin_form_placed(&self, op: BinOp, form: usize, rhs: &dyn Tab, place: u8) -> T;
    // variable transforms
    fn flip(&self, i: usize) -> T;
    fn flip_inplace(&mut self, i: usize);
    fn swap(&self, i: usize, j: usize) -> T;
    fn swap_inplace(&mut self, i: usize, j: usize);
    fn swap_adjacent(&mut self, i: usize) -> T;
    fn swap_adjacent_inplace(&mut self, i: usize);
    fn cofactors(&self, i: usize) -> (T, T);
    /// Self::from_cofactors(self, c1, i)
    fn from_cofactors(&self, c1: &dyn Tab, i: usize) -> T;
    // canonization
    fn p_canon(&self) -> (T, Vec<u8>);
    fn n_canon(&self) -> (T, u32);
    fn npn_canon(&self) -> (T, Vec<u8>, u32);
    // decomposition
    fn top_decomposition(&self, i: usize) -> String;
    fn is_pos_unate(&self, i: usize) -> bool;
    fn is_neg_unate(&self, i: usize) -> bool;
    /// Self::bdd_complexity(&[self, others...])
    fn bdd_complexity_with(&self, others: &[&dyn Tab]) -> usize;
    // text
    fn to_hex(&self) -> String;
    fn to_bin(&self) -> String;
    fn fmt_display(&self) -> String;
    fn fmt_lower_hex(&self) -> String;
    fn fmt_binary(&self) -> String;
    /// formatting with a non-default format specification (index into FMT_SPECS)
    fn fmt_spec(&self, kind: usize) -> String;
    // comparisons
    fn eq_(&self, o: &dyn Tab) -> bool;
    fn ne_(&self, o: &dyn Tab) -> bool;
    fn cmp_(&self, o: &dyn Tab) -> Ordering;
    fn partial_cmp_(&self, o: &dyn Tab) -> Option<Ordering>;
    /// (a < b, a <= b, a > b, a >= b)
    fn rel_(&self, o: &dyn Tab) -> (bool, bool, bool, bool);
    fn hash64(&self) -> u64;
    // hooks (feature verif-hooks)
    fn successor(&mut self) -> bool;
    fn iter_from(&self) -> Box<dyn Iterator<Item = T>>;
    /// adaptor calls made directly on the library's iterator type (so that its own overrides of
    /// nth / skip / step_by, if any, are the code under test): kind 0 = nth(k), 1 = skip(k).next(),
    /// 2 = first three items of step_by(s), 3 = nth(k) then nth(s) on the same iterator
    fn iter_adaptor(&self, kind: u8, k: usize, s: usize) -> Vec<Option<T>>;
    /// consuming adaptors on the library's iterator started at self (only for starts close to the
    /// end): (number of items, last item) obtained through kind 0 = count() and last() on two
    /// iterators, 1 = fold, 2 = for_each, 3 = collect::<Vec<_>>(), 4 = (max(), by count of filter),
    /// 5 = by_ref loop then count()
    fn iter_consume(&self, kind: u8) -> (usize, Option<T>);
    // conversions
    /// Lut -> LutN (N = requested), LutN -> Lut (requested ignored)
    fn convert(&self, requested_n: usize) -> Result<T, ()>;
    /// Lut3..Lut6 -> integer; None for other types
    fn to_int(&self) -> Option<u64>;
}

pub trait Family: Sync {
    fn fam(&self) -> Fam;
    fn zero(&self, n: usize) -> T;
    fn one(&self, n: usize) -> T;
    fn nth_var(&self, n: usize, i: usize) -> T;
    fn parity(&self, n: usize) -> T;
    fn majority(&self, n: usize) -> T;
    fn threshold(&self, n: usize, k: usize) -> T;
    fn equals(&self, n: usize, k: usize) -> T;
    fn symmetric(&self, n: usize, c: usize) -> T;
    fn random(&self, n: usize) -> T;
    /// `Default::default()`; for the dynamic family n is ignored
    fn default_(&self, n: usize) -> T;
    fn from_blocks(&self, n: usize, b: &[u64]) -> T;
    fn from_hex(&self, n: usize, s: &str) -> Result<T, ()>;
    fn all_functions(&self, n: usize) -> Box<dyn Iterator<Item = T>>;
    /// all_functions(n).nth(k), called directly on the library's iterator type
    fn all_functions_nth(&self, n: usize, k: usize) -> Option<T>;
    /// consuming adaptors (as Tab::iter_consume) on all_functions(n) itself
    fn all_functions_consume(&self, n: usize, kind: u8) -> (usize, Option<T>);
    /// bdd_complexity of an empty list (static: typed by n)
    fn bdd_complexity_empty(&self, n: usize) -> usize;
    /// From<u8/u16/u32/u64> for Lut3..Lut6 (static family only)
    fn from_int(&self, n: usize, v: u64) -> Option<T>;
}

/// a fixed-size type beyond the exported aliases (the generic type is public)
pub type Lut13 = volute::StaticLut<13, 128>;

pub struct W<L>(pub L);

/// non-default format specifications exercised on the formatting traits
pub const FMT_SPECS: [&str; 10] = ["{:#x}", "{:#b}", "{:#}", "{:>40}", "{:<40x}", "{:^80b}", "{:.3}", "{:+}", "{:12.4x}", "{:-^30}"];

macro_rules! fmt_spec_impl {
    ($v:expr, $kind:expr) => {
        match $kind {
            0 => format!("{:#x}", $v),
            1 => format!("{:#b}", $v),
            2 => format!("{:#}", $v),
            3 => format!("{:>40}", $v),
            4 => format!("{:<40x}", $v),
            5 => format!("{:^80b}", $v),
            6 => format!("{:.3}", $v),
            7 => format!("{:+}", $v),
            8 => format!("{:12.4x}", $v),
            _ => format!("{:-^30}", $v),
        }
    };
}

macro_rules! consume_impl {
    ($it:expr, $mk:expr, $kind:expr, $b:expr) => {{
        match $kind {
            0 => {
                let c = $it.count();
                let l = $mk.last();
                (c, l.map($b))
            }
            1 => {
                let (c, l) = $it.fold((0usize, None), |(c, _), x| (c + 1, Some(x)));
                (c, l.map($b))
            }
            2 => {
                let mut c = 0usize;
                let mut l = None;
                $it.for_each(|x| {
                    c += 1;
                    l = Some(x);
                });
                (c, l.map($b))
            }
            3 => {
                let v: Vec<_> = $it.collect();
                let c = v.len();
                (c, v.into_iter().last().map($b))
            }
            4 => {
                let c = $it.filter(|_| true).count();
                let l = $mk.max();
                (c, l.map($b))
            }
            _ => {
                let mut it = $it;
                let mut c = 0usize;
                let mut l = None;
                for x in it.by_ref().take(3) {
                    c += 1;
                    l = Some(x);
                }
                let rest = $mk.skip(c).last();
                c += it.count();
                (c, rest.or(l).map($b))
            }
        }
    }};
}

fn inner<'a, L: 'static>(t: &'a dyn Tab) -> &'a L {
    &t.as_any()
        .downcast_ref::<W<L>>()
        .expect("harness bug: operands of different adapter types")
        .0
}

macro_rules! bin_forms {
    ($a:ident, $b:ident, $form:ident, $named:ident, $inpl:ident, $op:tt, $opa:tt) => {
        match $form {
            0 => $a.$named($b),
            1 => {
                let mut t = $a.clone();
                t.$inpl($b);
                t
            }
            2 => $a.clone() $op $b.clone(),
            3 => $a.clone() $op $b,
            4 => $a $op $b.clone(),
            5 => $a $op $b,
            6 => {
                let mut t = $a.clone();
                t $opa $b.clone();
                t
            }
            7 => {
                let mut t = $a.clone();
                t $opa $b;
                t
            }
            _ => panic!("harness bug: bad form"),
        }
    };
}

#[repr(C, align(16))]
struct At0<L> {
    v: L,
}
#[repr(C, align(16))]
struct At8<L> {
    pad: u64,
    v: L,
}

macro_rules! impl_tab {
    ($ty:ty, $fam:expr, $convert:expr, $toint:expr) => {
        impl Tab for W<$ty> {
            fn as_any(&self) -> &dyn Any {
                self
            }
            fn fam(&self) -> Fam {
                $fam
            }
            fn dup(&self) -> T {
                Box::new(W(self.0.clone()))
            }
            fn clone_from_(&mut self, src: &dyn Tab) {
                self.0.clone_from(inner::<$ty>(src))
            }
            fn n(&self) -> usize {
                self.0.num_vars()
            }
            fn num_bits(&self) -> usize {
                self.0.num_bits()
            }
            fn num_blocks(&self) -> usize {
                self.0.num_blocks()
            }
            fn blocks(&self) -> Vec<u64> {
                self.0.blocks().to_vec()
            }
            fn value(&self, m: usize) -> bool {
                self.0.value(m)
            }
            fn get_bit(&self, m: usize) -> bool {
                self.0.get_bit(m)
            }
            fn set_value(&mut self, m: usize, b: bool) {
                self.0.set_value(m, b)
            }
            fn set_bit(&mut self, m: usize) {
                self.0.set_bit(m)
            }
            fn unset_bit(&mut self, m: usize) {
                self.0.unset_bit(m)
            }
            fn not_form(&self, form: usize) -> T {
                let a = &self.0;
                let r: $ty = match form {
                    0 => <$ty>::not(a),
                    1 => {
                        let mut t = a.clone();
                        t.not_inplace();
                        t
                    }
                    2 => !(a.clone()),
                    3 => !a,
                    _ => panic!("harness bug: bad form"),
                };
                Box::new(W(r))
            }
            fn bin_form(&self, op: BinOp, form: usize, rhs: &dyn Tab) -> T {
                let a = &self.0;
                let b = inner::<$ty>(rhs);
                let r: $ty = match op {
                    BinOp::And => bin_forms!(a, b, form, and, and_inplace, &, &=),
                    BinOp::Or => bin_forms!(a, b, form, or, or_inplace, |, |=),
                    BinOp::Xor => bin_forms!(a, b, form, xor, xor_inplace, ^, ^=),
                };
                Box::new(W(r))
            }
            fn bin_form_placed(&self, op: BinOp, form: usize, rhs: &dyn Tab, place: u8) -> T {
                let r0 = inner::<$ty>(rhs);
                let (a0, a8) = (At0 { v: self.0.clone() }, At8 { pad: 0, v: self.0.clone() });
                let (b0, b8) = (At0 { v: r0.clone() }, At8 { pad: 0, v: r0.clone() });
                std::hint::black_box((&a0, &a8, &b0, &b8, a8.pad, b8.pad));
                let (a, b): (&$ty, &$ty) = match place {
                    0 => (&a0.v, &b8.v),
                    1 => (&a8.v, &b0.v),
                    _ => (&a8.v, &b8.v),
                };
                let r: $ty = match op {
                    BinOp::And => bin_forms!(a, b, form, and, and_inplace, &, &=),
                    BinOp::Or => bin_forms!(a, b, form, or, or_inplace, |, |=),
                    BinOp::Xor => bin_forms!(a, b, form, xor, xor_inplace, ^, ^=),
                };
                Box::new(W(r))
            }
            fn flip(&self, i: usize) -> T {
                Box::new(W(self.0.flip(i)))
            }
            fn flip_inplace(&mut self, i: usize) {
                self.0.flip_inplace(i)
            }
            fn swap(&self, i: usize, j: usize) -> T {
                Box::new(W(self.0.swap(i, j)))
            }
            fn swap_inplace(&mut self, i: usize, j: usize) {
                self.0.swap_inplace(i, j)
            }
            fn swap_adjacent(&mut self, i: usize) -> T {
                Box::new(W(self.0.swap_adjacent(i)))
            }
            fn swap_adjacent_inplace(&mut self, i: usize) {
                self.0.swap_adjacent_inplace(i)
            }
            fn cofactors(&self, i: usize) -> (T, T) {
                let (c0, c1) = self.0.cofactors(i);
                (Box::new(W(c0)), Box::new(W(c1)))
            }
            fn from_cofactors(&self, c1: &dyn Tab, i: usize) -> T {
                Box::new(W(<$ty>::from_cofactors(&self.0, inner::<$ty>(c1), i)))
            }
            fn p_canon(&self) -> (T, Vec<u8>) {
                let (t, p) = self.0.p_canonization();
                (Box::new(W(t)), p.to_vec())
            }
            fn n_canon(&self) -> (T, u32) {
                let (t, f) = self.0.n_canonization();
                (Box::new(W(t)), f)
            }
            fn npn_canon(&self) -> (T, Vec<u8>, u32) {
                let (t, p, f) = self.0.npn_canonization();
                (Box::new(W(t)), p.to_vec(), f)
            }
            fn top_decomposition(&self, i: usize) -> String {
                format!("{:?}", self.0.top_decomposition(i))
            }
            fn is_pos_unate(&self, i: usize) -> bool {
                self.0.is_pos_unate(i)
            }
            fn is_neg_unate(&self, i: usize) -> bool {
                self.0.is_neg_unate(i)
            }
            fn bdd_complexity_with(&self, others: &[&dyn Tab]) -> usize {
                let mut v: Vec<$ty> = vec![self.0.clone()];
                for o in others {
                    v.push(inner::<$ty>(*o).clone());
                }
                <$ty>::bdd_complexity(&v)
            }
            fn to_hex(&self) -> String {
                self.0.to_hex_string()
            }
            fn to_bin(&self) -> String {
                self.0.to_bin_string()
            }
            fn fmt_display(&self) -> String {
                format!("{}", self.0)
            }
            fn fmt_lower_hex(&self) -> String {
                format!("{:x}", self.0)
            }
            fn fmt_binary(&self) -> String {
                format!("{:b}", self.0)
            }
            fn fmt_spec(&self, kind: usize) -> String {
                fmt_spec_impl!(self.0, kind)
            }
            fn eq_(&self, o: &dyn Tab) -> bool {
                self.0 == *inner::<$ty>(o)
            }
            fn ne_(&self, o: &dyn Tab) -> bool {
                self.0 != *inner::<$ty>(o)
            }
            fn cmp_(&self, o: &dyn Tab) -> Ordering {
                Ord::cmp(&self.0, inner::<$ty>(o))
            }
            fn partial_cmp_(&self, o: &dyn Tab) -> Option<Ordering> {
                PartialOrd::partial_cmp(&self.0, inner::<$ty>(o))
            }
            fn rel_(&self, o: &dyn Tab) -> (bool, bool, bool, bool) {
                let a = &self.0;
                let b = inner::<$ty>(o);
                (a < b, a <= b, a > b, a >= b)
            }
            fn hash64(&self) -> u64 {
                let mut h = DefaultHasher::new();
                self.0.hash(&mut h);
                h.finish()
            }
            fn successor(&mut self) -> bool {
                self.0.verif_successor()
            }
            fn iter_from(&self) -> Box<dyn Iterator<Item = T>> {
                Box::new(<$ty>::verif_all_functions_from(&self.0).map(|l| Box::new(W(l)) as T))
            }
            fn iter_adaptor(&self, kind: u8, k: usize, s: usize) -> Vec<Option<T>> {
                let b = |l: $ty| Box::new(W(l)) as T;
                let mut it = <$ty>::verif_all_functions_from(&self.0);
                match kind {
                    0 => vec![it.nth(k).map(b)],
                    1 => vec![it.skip(k).next().map(b)],
                    2 => {
                        let mut st = it.step_by(s);
                        (0..3).map(|_| st.next().map(b)).collect()
                    }
                    _ => {
                        let x = it.nth(k).map(b);
                        let y = it.nth(s).map(b);
                        vec![x, y]
                    }
                }
            }
            fn iter_consume(&self, kind: u8) -> (usize, Option<T>) {
                let b = |l: $ty| Box::new(W(l)) as T;
                consume_impl!(<$ty>::verif_all_functions_from(&self.0), <$ty>::verif_all_functions_from(&self.0), kind, b)
            }
            fn convert(&self, requested_n: usize) -> Result<T, ()> {
                let f: fn(&$ty, usize) -> Result<T, ()> = $convert;
                f(&self.0, requested_n)
            }
            fn to_int(&self) -> Option<u64> {
                let f: fn(&$ty) -> Option<u64> = $toint;
                f(&self.0)
            }
        }
    };
}

macro_rules! with_static {
    ($n:expr, $L:ident => $body:expr) => {
        match $n {
            0 => {
                type $L = Lut0;
                $body
            }
            1 => {
                type $L = Lut1;
                $body
            }
            2 => {
                type $L = Lut2;
                $body
            }
            3 => {
                type $L = Lut3;
                $body
            }
            4 => {
                type $L = Lut4;
                $body
            }
            5 => {
                type $L = Lut5;
                $body
            }
            6 => {
                type $L = Lut6;
                $body
            }
            7 => {
                type $L = Lut7;
                $body
            }
            8 => {
                type $L = Lut8;
                $body
            }
            9 => {
                type $L = Lut9;
                $body
            }
            10 => {
                type $L = Lut10;
                $body
            }
            11 => {
                type $L = Lut11;
                $body
            }
            12 => {
                type $L = Lut12;
                $body
            }
            13 => {
                type $L = Lut13;
                $body
            }
            _ => panic!("harness bug: no static alias for n={}", $n),
        }
    };
}

fn lut_to_static(l: &Lut, requested_n: usize) -> Result<T, ()> {
    with_static!(requested_n, L => {
        let r: Result<L, ()> = L::try_from(l.clone());
        r.map(|x| Box::new(W(x)) as T)
    })
}

impl_tab!(Lut, Fam::Dyn, |l, n| lut_to_static(l, n), |_| None);

macro_rules! impl_static {
    ($ty:ty, $toint:expr) => {
        impl_tab!(
            $ty,
            Fam::Static,
            |l, _| Ok(Box::new(W(Lut::from(l.clone()))) as T),
            $toint
        );
    };
}

impl_static!(Lut0, |_| None);
impl_static!(Lut1, |_| None);
impl_static!(Lut2, |_| None);
impl_static!(Lut3, |l| Some(u8::from(l.clone()) as u64));
impl_static!(Lut4, |l| Some(u16::from(l.clone()) as u64));
impl_static!(Lut5, |l| Some(u32::from(l.clone()) as u64));
impl_static!(Lut6, |l| Some(u64::from(l.clone())));
impl_static!(Lut7, |_| None);
impl_static!(Lut8, |_| None);
impl_static!(Lut9, |_| None);
impl_static!(Lut10, |_| None);
impl_static!(Lut11, |_| None);
impl_static!(Lut12, |_| None);
impl_static!(Lut13, |_| None);

pub struct DynFam;
pub struct StatFam;

fn bx<L>(l: L) -> T
where
    W<L>: Tab + 'static,
{
    Box::new(W(l))
}

impl Family for DynFam {
    fn fam(&self) -> Fam {
        Fam::Dyn
    }
    fn zero(&self, n: usize) -> T {
        bx(Lut::zero(n))
    }
    fn one(&self, n: usize) -> T {
        bx(Lut::one(n))
    }
    fn nth_var(&self, n: usize, i: usize) -> T {
        bx(Lut::nth_var(n, i))
    }
    fn parity(&self, n: usize) -> T {
        bx(Lut::parity(n))
    }
    fn majority(&self, n: usize) -> T {
        bx(Lut::majority(n))
    }
    fn threshold(&self, n: usize, k: usize) -> T {
        bx(Lut::threshold(n, k))
    }
    fn equals(&self, n: usize, k: usize) -> T {
        bx(Lut::equals(n, k))
    }
    fn symmetric(&self, n: usize, c: usize) -> T {
        bx(Lut::symmetric(n, c))
    }
    fn random(&self, n: usize) -> T {
        bx(Lut::random(n))
    }
    fn default_(&self, _n: usize) -> T {
        bx(Lut::default())
    }
    fn from_blocks(&self, n: usize, b: &[u64]) -> T {
        bx(Lut::from_blocks(n, b))
    }
    fn from_hex(&self, n: usize, s: &str) -> Result<T, ()> {
        Lut::from_hex_string(n, s).map(bx)
    }
    fn all_functions(&self, n: usize) -> Box<dyn Iterator<Item = T>> {
        Box::new(Lut::all_functions(n).map(bx))
    }
    fn all_functions_nth(&self, n: usize, k: usize) -> Option<T> {
        Lut::all_functions(n).nth(k).map(bx)
    }
    fn all_functions_consume(&self, n: usize, kind: u8) -> (usize, Option<T>) {
        consume_impl!(Lut::all_functions(n), Lut::all_functions(n), kind, bx)
    }
    fn bdd_complexity_empty(&self, _n: usize) -> usize {
        Lut::bdd_complexity(&[])
    }
    fn from_int(&self, _n: usize, _v: u64) -> Option<T> {
        None
    }
}

impl Family for StatFam {
    fn fam(&self) -> Fam {
        Fam::Static
    }
    fn zero(&self, n: usize) -> T {
        with_static!(n, L => bx(L::zero()))
    }
    fn one(&self, n: usize) -> T {
        with_static!(n, L => bx(L::one()))
    }
    fn nth_var(&self, n: usize, i: usize) -> T {
        with_static!(n, L => bx(L::nth_var(i)))
    }
    fn parity(&self, n: usize) -> T {
        with_static!(n, L => bx(L::parity()))
    }
    fn majority(&self, n: usize) -> T {
        with_static!(n, L => bx(L::majority()))
    }
    fn threshold(&self, n: usize, k: usize) -> T {
        with_static!(n, L => bx(L::threshold(k)))
    }
    fn equals(&self, n: usize, k: usize) -> T {
        with_static!(n, L => bx(L::equals(k)))
    }
    fn symmetric(&self, n: usize, c: usize) -> T {
        with_static!(n, L => bx(L::symmetric(c)))
    }
    fn random(&self, n: usize) -> T {
        with_static!(n, L => bx(L::random()))
    }
    fn default_(&self, n: usize) -> T {
        with_static!(n, L => bx(L::default()))
    }
    fn from_blocks(&self, n: usize, b: &[u64]) -> T {
        with_static!(n, L => bx(L::from_blocks(b)))
    }
    fn from_hex(&self, n: usize, s: &str) -> Result<T, ()> {
        with_static!(n, L => L::from_hex_string(s).map(bx))
    }
    fn all_functions(&self, n: usize) -> Box<dyn Iterator<Item = T>> {
        with_static!(n, L => Box::new(L::all_functions().map(bx)))
    }
    fn all_functions_nth(&self, n: usize, k: usize) -> Option<T> {
        with_static!(n, L => L::all_functions().nth(k).map(bx))
    }
    fn all_functions_consume(&self, n: usize, kind: u8) -> (usize, Option<T>) {
        with_static!(n, L => consume_impl!(L::all_functions(), L::all_functions(), kind, bx))
    }
    fn bdd_complexity_empty(&self, n: usize) -> usize {
        with_static!(n, L => L::bdd_complexity(&[]))
    }
    fn from_int(&self, n: usize, v: u64) -> Option<T> {
        match n {
            3 => Some(bx(Lut3::from(v as u8))),
            4 => Some(bx(Lut4::from(v as u16))),
            5 => Some(bx(Lut5::from(v as u32))),
            6 => Some(bx(Lut6::from(v))),
            _ => None,
        }
    }
}
