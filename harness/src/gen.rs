//! Shared proptest strategies. Every random choice of every check is made here or in the
//! property modules *inside proptest strategies*, so runs are pure functions of the seed and
//! failures shrink.

use proptest::collection::vec;
use proptest::prelude::*;
use proptest::strategy::Union;

use crate::adapter::Fam;
use crate::model::{mask_for, words_for, Tt};

/// Sizes lo..=hi with extra weight on the boundary sizes 0,1,2,5,6,7 and hi, and reduced
/// weight on the (slow) sizes above 10.
pub fn arb_n(lo: usize, hi: usize) -> BoxedStrategy<usize> {
    let mut v: Vec<(u32, BoxedStrategy<usize>)> = Vec::new();
    for n in lo..=hi {
        let mut w = match n {
            0 | 1 | 2 => 6,
            5 | 6 | 7 => 9,
            3 | 4 => 6,
            8 | 9 => 6,
            10 => 3,
            _ => 2,
        };
        if n == hi && hi >= 8 {
            w += 2;
        }
        v.push((w, Just(n).boxed()));
    }
    Union::new_weighted(v).boxed()
}

/// Sizes lo..=hi, uniform.
pub fn arb_n_flat(lo: usize, hi: usize) -> BoxedStrategy<usize> {
    (lo..=hi).boxed()
}

pub fn arb_fam() -> BoxedStrategy<Fam> {
    prop_oneof![Just(Fam::Dyn), Just(Fam::Static)].boxed()
}

/// (family, n) with n within the family's range intersected with lo..=hi
pub fn arb_fam_n(lo: usize, hi: usize) -> BoxedStrategy<(Fam, usize)> {
    arb_fam()
        .prop_flat_map(move |f| {
            let h = std::cmp::min(hi, f.max_n());
            arb_n(lo, h).prop_map(move |n| (f, n))
        })
        .boxed()
}

const STRIPES: [u64; 8] = [
    0xaaaa_aaaa_aaaa_aaaa,
    0xcccc_cccc_cccc_cccc,
    0xf0f0_f0f0_f0f0_f0f0,
    0xff00_ff00_ff00_ff00,
    0xffff_0000_ffff_0000,
    0xffff_ffff_0000_0000,
    0x8000_0000_0000_0001,
    0x7fff_ffff_ffff_fffe,
];

fn arb_word() -> BoxedStrategy<u64> {
    prop_oneof![
        6 => any::<u64>(),
        1 => Just(0u64),
        1 => Just(!0u64),
        1 => (0usize..8).prop_map(|i| STRIPES[i]),
        1 => (0usize..8).prop_map(|i| !STRIPES[i]),
        1 => (0u32..64).prop_map(|b| 1u64 << b),
        1 => (0u32..64).prop_map(|b| !(1u64 << b)),
        // thermometer patterns: the lowest b positions set (and complements)
        1 => (0u32..64).prop_map(|b| (1u64 << b) - 1),
        1 => (0u32..64).prop_map(|b| !((1u64 << b) - 1)),
    ]
    .boxed()
}

/// A small random and/or/xor expression over literals, evaluated in the model.
#[derive(Clone, Debug)]
enum Ex {
    Lit(usize, bool),
    And(Box<Ex>, Box<Ex>),
    Or(Box<Ex>, Box<Ex>),
    Xor(Box<Ex>, Box<Ex>),
}

impl Ex {
    fn eval(&self, m: usize) -> bool {
        match self {
            Ex::Lit(v, neg) => ((m >> v) & 1 != 0) ^ neg,
            Ex::And(a, b) => a.eval(m) & b.eval(m),
            Ex::Or(a, b) => a.eval(m) | b.eval(m),
            Ex::Xor(a, b) => a.eval(m) ^ b.eval(m),
        }
    }
}

fn arb_ex(n: usize) -> BoxedStrategy<Ex> {
    assert!(n >= 1);
    let leaf = (0..n, any::<bool>()).prop_map(|(v, neg)| Ex::Lit(v, neg));
    leaf.prop_recursive(4, 12, 2, |inner| {
        prop_oneof![
            (inner.clone(), inner.clone()).prop_map(|(a, b)| Ex::And(Box::new(a), Box::new(b))),
            (inner.clone(), inner.clone()).prop_map(|(a, b)| Ex::Or(Box::new(a), Box::new(b))),
            (inner.clone(), inner).prop_map(|(a, b)| Ex::Xor(Box::new(a), Box::new(b))),
        ]
    })
    .boxed()
}

/// Truth tables of exactly n variables, a weighted mix of classes (see DESIGN.md §3).
pub fn arb_tt(n: usize) -> BoxedStrategy<Tt> {
    let words = words_for(n);
    let size = 1usize << n;
    let uniform = vec(any::<u64>(), words).prop_map(move |w| Tt::from_words(n, w));
    let wordwise = vec(arb_word(), words).prop_map(move |w| Tt::from_words(n, w));
    // one shared word W, each position picks from {0, !0, W, !W}
    let shared = (any::<u64>(), vec(0u8..4, words)).prop_map(move |(wd, sel)| {
        let w = sel
            .iter()
            .map(|s| match s {
                0 => 0,
                1 => !0,
                2 => wd,
                _ => !wd,
            })
            .collect();
        Tt::from_words(n, w)
    });
    let sparse = (vec(0..size, 1..=4), any::<bool>()).prop_map(move |(bits, co)| {
        let mut t = Tt::zero(n);
        for b in bits {
            t.set(b, true);
        }
        if co {
            t.not()
        } else {
            t
        }
    });
    let symmetric = any::<u32>().prop_map(move |c| {
        Tt::from_fn(n, |m| (c >> (m.count_ones() as u32 % 32)) & 1 != 0)
    });
    let konst = any::<bool>().prop_map(move |b| if b { Tt::one(n) } else { Tt::zero(n) });
    // the lowest `a` assignments true (the shape orbit minima tend to have), the rest either empty,
    // a few stragglers, or (multi-word tables) uniformly random above the first word
    let packed = (0..=size, vec(0..size, 0..=3), vec(any::<u64>(), words), 0u8..3, any::<bool>()).prop_map(move |(a, extra, rnd, mode, co)| {
        let mut t = Tt::from_fn(n, |m| m < a);
        match mode {
            0 => {}
            1 => {
                for m in extra {
                    let v = t.get(m);
                    t.set(m, !v);
                }
            }
            _ => {
                for w in 1..words {
                    t.w[w] = rnd[w];
                }
                if a > 64 {
                    t = Tt::from_fn(n, |m| if m < 64 { true } else { t.get(m) });
                }
            }
        }
        if co {
            t.not()
        } else {
            t
        }
    });
    if n == 0 {
        return prop_oneof![uniform, konst].boxed();
    }
    let expr = arb_ex(n).prop_map(move |e| Tt::from_fn(n, |m| e.eval(m)));
    prop_oneof![
        8 => uniform,
        3 => wordwise,
        2 => shared,
        3 => sparse,
        2 => symmetric,
        3 => expr,
        1 => konst,
        2 => packed,
    ]
    .boxed()
}

/// A table related to `a`: equal, complement, 1-2 bits changed, one word changed, or fresh.
pub fn arb_related(a: &Tt) -> BoxedStrategy<Tt> {
    let n = a.n;
    let size = a.size();
    let a1 = a.clone();
    let a2 = a.clone();
    let a3 = a.clone();
    let a4 = a.clone();
    let words = words_for(n);
    prop_oneof![
        6 => arb_tt(n),
        1 => Just(a1),
        1 => Just(a2.not()),
        2 => vec(0..size, 1..=2).prop_map(move |bits| {
            let mut t = a3.clone();
            for b in bits {
                let v = t.get(b);
                t.set(b, !v);
            }
            t
        }),
        2 => (0..words, any::<u64>()).prop_map(move |(k, w)| {
            let mut t = a4.clone();
            t.w[k] = w;
            if words == 1 { t.w[0] &= mask_for(n); }
            t
        }),
    ]
    .boxed()
}

/// (fam, a, b) of the same n
pub fn arb_fam_pair(lo: usize, hi: usize) -> BoxedStrategy<(Fam, Tt, Tt)> {
    arb_fam_n(lo, hi)
        .prop_flat_map(|(f, n)| arb_tt(n).prop_flat_map(move |a| {
            let a0 = a.clone();
            arb_related(&a).prop_map(move |b| (f, a0.clone(), b))
        }))
        .boxed()
}

/// (fam, a) single table
pub fn arb_fam_tt(lo: usize, hi: usize) -> BoxedStrategy<(Fam, Tt)> {
    arb_fam_n(lo, hi)
        .prop_flat_map(|(f, n)| arb_tt(n).prop_map(move |a| (f, a)))
        .boxed()
}

/// an index pair (i, j) for n variables, balanced over the three storage regimes
pub fn arb_ij(n: usize) -> BoxedStrategy<(usize, usize)> {
    assert!(n >= 1);
    if n <= 7 {
        return (0..n, 0..n).boxed();
    }
    prop_oneof![
        2 => (0..6usize, 0..6usize),
        3 => (6..n, 0..6usize),
        3 => (0..6usize, 6..n),
        3 => (6..n, 6..n),
        1 => (0..n, 0..n),
    ]
    .boxed()
}

/// a variable index for n variables, balanced between in-word (<=5) and cross-word (>=6)
pub fn arb_var(n: usize) -> BoxedStrategy<usize> {
    assert!(n >= 1);
    if n <= 6 {
        return (0..n).boxed();
    }
    prop_oneof![1 => 0..6usize, 1 => 6..n].boxed()
}

// ---------------------------------------------------------------------------------------------
// strings for the hex parser (C09, C02)

pub const ODD_CHARS: [char; 22] = [
    '+', '-', ' ', 'g', 'x', 'G', 'X', '_', '\0', '\n', 'A', 'B', 'C', 'D', 'E', 'F', 'é', 'ß', '€', '😀',
    '０', 'ｆ',
];

fn arb_char() -> BoxedStrategy<char> {
    prop_oneof![
        3 => (0usize..ODD_CHARS.len()).prop_map(|i| ODD_CHARS[i]),
        2 => (0u32..16).prop_map(|d| std::char::from_digit(d, 16).unwrap()),
        1 => any::<char>(),
    ]
    .boxed()
}

/// char position in a string of `len` chars, with extra weight on multiples of 16 (each 16-digit
/// chunk is parsed separately by the library) and on both ends
fn arb_pos(len: usize) -> BoxedStrategy<usize> {
    if len == 0 {
        return Just(0usize).boxed();
    }
    let chunks = (len + 15) / 16;
    prop_oneof![
        3 => (0..chunks).prop_map(move |c| std::cmp::min(c * 16, len - 1)),
        1 => Just(0usize),
        1 => Just(len - 1),
        3 => 0..len,
    ]
    .boxed()
}

#[derive(Clone, Debug)]
enum Edit {
    Replace(usize, char),
    Insert(usize, char),
    Delete(usize),
    Append(char),
    Prepend(char),
    Upper,
    Clear,
    TruncTo(usize),
    /// overwrite as many characters as `c` has UTF-8 bytes, ending `back` bytes after the 16-byte
    /// chunk boundary number `chunk`: the BYTE length is preserved and the character straddles
    /// (back < len) or touches the boundary
    Splice(usize, usize, char),
}

fn apply_edit(s: &str, e: &Edit) -> String {
    let mut v: Vec<char> = s.chars().collect();
    match e {
        Edit::Replace(p, c) => {
            if *p < v.len() {
                v[*p] = *c;
            }
        }
        Edit::Insert(p, c) => {
            let p = std::cmp::min(*p, v.len());
            v.insert(p, *c);
        }
        Edit::Delete(p) => {
            if *p < v.len() {
                v.remove(*p);
            }
        }
        Edit::Append(c) => v.push(*c),
        Edit::Prepend(c) => v.insert(0, *c),
        Edit::Upper => {
            v = v.iter().map(|c| c.to_ascii_uppercase()).collect();
        }
        Edit::Clear => v.clear(),
        Edit::TruncTo(k) => v.truncate(*k),
        Edit::Splice(chunk, back, c) => {
            let l = c.len_utf8();
            let end = chunk * 16 + back; // exclusive end position (in chars = bytes of the ASCII print)
            if end >= l && end <= v.len() && v.iter().all(|x| x.is_ascii()) {
                let start = end - l;
                v.splice(start..end, std::iter::once(*c));
            }
        }
    }
    v.into_iter().collect()
}

fn arb_edit(len: usize) -> BoxedStrategy<Edit> {
    prop_oneof![
        9 => (arb_pos(len), arb_char()).prop_map(|(p, c)| Edit::Replace(p, c)),
        2 => (arb_pos(len + 1), arb_char()).prop_map(|(p, c)| Edit::Insert(p, c)),
        2 => arb_pos(len).prop_map(Edit::Delete),
        1 => arb_char().prop_map(Edit::Append),
        1 => arb_char().prop_map(Edit::Prepend),
        1 => Just(Edit::Upper),
        1 => Just(Edit::Clear),
        1 => (0..=len).prop_map(Edit::TruncTo),
        4 => (0..=(len / 16), 0usize..=4, (16usize..ODD_CHARS.len()).prop_map(|i| ODD_CHARS[i]), any::<char>(), any::<bool>())
            .prop_map(|(chunk, back, c, anyc, pick)| Edit::Splice(chunk, back, if pick { c } else { anyc })),
    ]
    .boxed()
}

pub const WRAPPED_FORMS: usize = 10;
/// The digits of `t` with what the library's formatting traits (or a user's habit) put around them.
pub fn wrapped_form(n: usize, t: &Tt, k: usize) -> String {
    let (h, b) = (t.to_hex(), t.to_bin());
    match k {
        0 => format!("Lut{}({})", n, h),
        1 => format!("Lut{}({})", n, b),
        2 => format!("0x{}", h),
        3 => format!("0b{}", b),
        4 => format!("({})", h),
        5 => format!("Lut{}({})", n + 1, h),
        6 => format!("Lut{}({}", n, h),
        7 => format!("{}h", h),
        8 => format!("{}'h{}", 1usize << n, h),
        _ => format!("Lut{}({})", n, h.to_uppercase()),
    }
}

/// Strings offered to from_hex_string for n variables: the print of a generated table with 0, 1
/// or 2 structured corruptions, single digits for tiny n, and arbitrary short text.
pub fn arb_hex_input(n: usize) -> BoxedStrategy<String> {
    let width = Tt::hex_width(n);
    let printed = arb_tt(n).prop_map(|t| t.to_hex());
    let one_edit = (arb_tt(n), arb_edit(width)).prop_map(|(t, e)| apply_edit(&t.to_hex(), &e));
    let two_edits = (arb_tt(n), arb_edit(width), arb_edit(width))
        .prop_map(|(t, e1, e2)| apply_edit(&apply_edit(&t.to_hex(), &e1), &e2));
    let digits = vec((0u32..16).prop_map(|d| std::char::from_digit(d, 16).unwrap()), width)
        .prop_map(|v| v.into_iter().collect::<String>());
    let short = vec(arb_char(), 0..=std::cmp::min(width + 2, 6)).prop_map(|v| v.into_iter().collect::<String>());
    // what the library's own formatting traits (or a user's habit) put around the digits: none of
    // it is in the accept set, so every such string must be rejected
    let wrapped = (arb_tt(n), 0usize..WRAPPED_FORMS).prop_map(move |(t, k)| wrapped_form(n, &t, k));
    prop_oneof![
        3 => printed,
        6 => one_edit,
        2 => two_edits,
        2 => digits,
        1 => short,
        1 => wrapped,
    ]
    .boxed()
}
