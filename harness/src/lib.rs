//! vharness — property-based testing and fuzzing harness deciding the properties C01..C19 of
//! Coloquinte/volute (see /verif/DESIGN.md).

pub mod adapter;
pub mod bddref;
pub mod cli;
pub mod common;
pub mod engine;
pub mod fuzzdec;
pub mod gen;
pub mod model;
pub mod ops;
pub mod orbit;
pub mod props;
pub mod sopx;
