//! Operation descriptors over the whole public truth-table API, histories of them over a pool
//! of slots, and an interpreter. Used by C02 (invariant after every step), C10 (Lut vs LutN
//! differential) and C17 (build-profile differential).

use std::cmp::Ordering;

use proptest::collection::vec;
use proptest::prelude::*;
use serde::{Deserialize, Serialize};

use crate::adapter::{BinOp, Fam, Tab, T};
use crate::engine::guard;
use crate::gen::*;
use crate::model::Tt;

pub const SLOTS: usize = 4;

#[derive(Clone, Debug, Hash, PartialEq, Eq, Serialize, Deserialize)]
pub enum Op {
    // constructors -> dst
    Zero,
    One,
    NthVar(usize),
    Parity,
    Majority,
    Threshold(usize),
    Equals(usize),
    Symmetric(usize),
    Default,
    Random,
    FromBlocks(Vec<u64>),
    FromHexRaw(String),
    AllFunctionsNth(usize),
    /// last / max item of a complete all_functions run consumed through adaptor `kind` (n <= 3 only)
    AllFunctionsConsume(u8),
    FromInt(u64),
    /// Lut::from(&Sop / &Esop / &Soes) of a generated form (then converted to the family's type)
    FromSop(Vec<crate::sopx::CB>),
    FromEsop(Vec<crate::sopx::CB>),
    FromSoes(Vec<crate::sopx::EB>),
    // unary a -> dst
    Clone,
    /// a fresh table (constant one of `n2` variables for Lut, of the pool size for LutN) that
    /// receives `clone_from(&a)`
    CloneFrom(usize),
    Not(usize),
    Flip(usize, bool),
    Swap(usize, usize, bool),
    SwapAdjacent(usize, bool),
    Cofactor0(usize),
    Cofactor1(usize),
    SetBit(usize),
    UnsetBit(usize),
    SetValue(usize, bool),
    PCanon,
    NCanon,
    NpnCanon,
    Successor,
    /// formatting under a non-default format specification (index into adapter::FMT_SPECS)
    Format(usize),
    HexRoundTrip,
    ConvRoundTrip,
    /// (LutN -> Lut ->) Lut{n2}::try_from, any n2: Err unless n2 is the table's size
    ConvertTo(usize),
    CofactorRoundTrip(usize),
    DoubleFlip(usize),
    XorTwice,
    // binary a, b -> dst
    Bin(BinOp, usize),
    FromCofactors(usize),
    // queries (no slot changes)
    Value(usize),
    GetBit(usize),
    TopDecomp(usize),
    PosUnate(usize),
    NegUnate(usize),
    ToHex,
    ToBin,
    Display,
    LowerHex,
    Binary,
    ToInt,
    NumVars,
    NumBits,
    NumBlocks,
    Blocks,
    Cmp,
    PartialCmp,
    Eq,
    Rel,
    /// bdd_complexity of slots a, b and the first `k` other slots
    Bdd(usize),
    BddEmpty,
}

#[derive(Clone, Debug, Hash, PartialEq, Eq, Serialize, Deserialize)]
pub struct Step {
    pub op: Op,
    pub a: usize,
    pub b: usize,
    pub dst: usize,
}

#[derive(Clone, Debug, Hash, PartialEq, Eq, Serialize, Deserialize)]
pub struct History {
    pub n: usize,
    pub init: Vec<Tt>,
    pub steps: Vec<Step>,
}

#[derive(Clone, Debug, Hash, PartialEq, Eq, Serialize, Deserialize)]
pub enum Outcome {
    Table(usize, Vec<u64>),
    Cert(usize, Vec<u64>, Vec<u8>, u32),
    Str(String),
    Bool(bool),
    Num(u64),
    Ord(i8),
    Rel(bool, bool, bool, bool),
    Words(Vec<u64>),
    ParseErr,
    /// result not comparable between runs (random())
    Opaque,
    Panic,
}

fn tab_outcome(t: &dyn Tab) -> Outcome {
    Outcome::Table(t.n(), t.blocks())
}

fn ord_i8(o: Ordering) -> i8 {
    match o {
        Ordering::Less => -1,
        Ordering::Equal => 0,
        Ordering::Greater => 1,
    }
}

/// Does this op (if it succeeds) write a table into dst?
pub fn writes_slot(op: &Op) -> bool {
    !matches!(
        op,
        Op::Value(_)
            | Op::GetBit(_)
            | Op::TopDecomp(_)
            | Op::PosUnate(_)
            | Op::NegUnate(_)
            | Op::ToHex
            | Op::ToBin
            | Op::Display
            | Op::LowerHex
            | Op::Format(_)
            | Op::Binary
            | Op::ToInt
            | Op::NumVars
            | Op::NumBits
            | Op::NumBlocks
            | Op::Blocks
            | Op::Cmp
            | Op::PartialCmp
            | Op::Eq
            | Op::Rel
            | Op::Bdd(_)
            | Op::BddEmpty
    )
}

/// Execute one step on the pool. Returns the outcome and, for table-producing ops, the new value
/// for `dst` (stored by the caller only when its size matches the pool).
fn exec_inner(fam: Fam, n: usize, slots: &[T], st: &Step) -> (Outcome, Option<T>) {
    let f = fam.get();
    let a = slots[st.a].as_ref();
    let b = slots[st.b].as_ref();
    let tab = |t: T| {
        let o = tab_outcome(t.as_ref());
        (o, Some(t))
    };
    match &st.op {
        Op::Zero => tab(f.zero(n)),
        Op::One => tab(f.one(n)),
        Op::NthVar(i) => tab(f.nth_var(n, *i)),
        Op::Parity => tab(f.parity(n)),
        Op::Majority => tab(f.majority(n)),
        Op::Threshold(k) => tab(f.threshold(n, *k)),
        Op::Equals(k) => tab(f.equals(n, *k)),
        Op::Symmetric(c) => tab(f.symmetric(n, *c)),
        Op::Default => tab(f.default_(n)),
        Op::Random => {
            let t = f.random(n);
            (Outcome::Opaque, Some(t))
        }
        Op::FromBlocks(w) => tab(f.from_blocks(n, w)),
        Op::FromHexRaw(s) => match f.from_hex(n, s) {
            Ok(t) => tab(t),
            Err(()) => (Outcome::ParseErr, None),
        },
        Op::AllFunctionsNth(k) => match f.all_functions_nth(n, *k) {
            Some(t) => tab(t),
            None => (Outcome::ParseErr, None),
        },
        Op::AllFunctionsConsume(kind) => {
            if n > 3 {
                (Outcome::ParseErr, None)
            } else {
                match f.all_functions_consume(n, *kind % 6).1 {
                    Some(t) => tab(t),
                    None => (Outcome::ParseErr, None),
                }
            }
        }
        Op::FromInt(v) => match f.from_int(n, *v) {
            Some(t) => tab(t),
            None => (Outcome::Opaque, None),
        },
        Op::FromSop(cs) | Op::FromEsop(cs) => {
            let cubes: Vec<volute::sop::Cube> = cs.iter().map(|c| c.build()).collect();
            let l = if matches!(st.op, Op::FromSop(_)) {
                volute::Lut::from(&volute::sop::Sop::from_cubes(n, cubes))
            } else {
                volute::Lut::from(volute::sop::Esop::from_cubes(n, cubes))
            };
            let d: T = Box::new(crate::adapter::W(l));
            match fam {
                Fam::Dyn => tab(d),
                Fam::Static => match d.convert(n) {
                    Ok(t) => tab(t),
                    Err(()) => (Outcome::ParseErr, None),
                },
            }
        }
        Op::FromSoes(ts) => {
            let l = volute::Lut::from(&volute::sop::Soes::from_cubes(n, ts.iter().map(|t| t.build()).collect()));
            let d: T = Box::new(crate::adapter::W(l));
            match fam {
                Fam::Dyn => tab(d),
                Fam::Static => match d.convert(n) {
                    Ok(t) => tab(t),
                    Err(()) => (Outcome::ParseErr, None),
                },
            }
        }
        Op::Clone => tab(a.dup()),
        Op::CloneFrom(n2) => {
            let mut t = if fam == Fam::Dyn { f.one(*n2) } else { f.one(n) };
            t.clone_from_(a);
            tab(t)
        }
        Op::Not(form) => tab(a.not_form(*form)),
        Op::Flip(i, inplace) => {
            if *inplace {
                let mut t = a.dup();
                t.flip_inplace(*i);
                tab(t)
            } else {
                tab(a.flip(*i))
            }
        }
        Op::Swap(i, j, inplace) => {
            if *inplace {
                let mut t = a.dup();
                t.swap_inplace(*i, *j);
                tab(t)
            } else {
                tab(a.swap(*i, *j))
            }
        }
        Op::SwapAdjacent(i, inplace) => {
            let mut t = a.dup();
            if *inplace {
                t.swap_adjacent_inplace(*i);
                tab(t)
            } else {
                tab(t.swap_adjacent(*i))
            }
        }
        Op::Cofactor0(i) => tab(a.cofactors(*i).0),
        Op::Cofactor1(i) => tab(a.cofactors(*i).1),
        Op::SetBit(m) => {
            let mut t = a.dup();
            t.set_bit(*m);
            tab(t)
        }
        Op::UnsetBit(m) => {
            let mut t = a.dup();
            t.unset_bit(*m);
            tab(t)
        }
        Op::SetValue(m, v) => {
            let mut t = a.dup();
            t.set_value(*m, *v);
            tab(t)
        }
        Op::PCanon => {
            let (t, p) = a.p_canon();
            (Outcome::Cert(t.n(), t.blocks(), p, 0), Some(t))
        }
        Op::NCanon => {
            let (t, m) = a.n_canon();
            (Outcome::Cert(t.n(), t.blocks(), vec![], m), Some(t))
        }
        Op::NpnCanon => {
            let (t, p, m) = a.npn_canon();
            (Outcome::Cert(t.n(), t.blocks(), p, m), Some(t))
        }
        Op::Successor => {
            let mut t = a.dup();
            let ok = t.successor();
            let mut w = t.blocks();
            w.push(ok as u64);
            (Outcome::Words(w), Some(t))
        }
        Op::HexRoundTrip => match f.from_hex(n, &a.to_hex()) {
            Ok(t) => tab(t),
            Err(()) => (Outcome::ParseErr, None),
        },
        // (no fixed-size type beyond 13 variables in the harness: the round trip is the identity there)
        Op::ConvRoundTrip if n > 13 => tab(a.dup()),
        Op::ConvRoundTrip => match a.convert(n) {
            Ok(x) => match x.convert(n) {
                Ok(t) => tab(t),
                Err(()) => (Outcome::ParseErr, None),
            },
            Err(()) => (Outcome::ParseErr, None),
        },
        Op::ConvertTo(n2) => {
            // both families end in LutK::try_from(Lut): a LutN first goes to Lut (infallible)
            let src = if a.fam() == Fam::Static { a.convert(0) } else { Ok(a.dup()) };
            match src.and_then(|l| l.convert(*n2)) {
                // same size: back to the pool's family so that both families store the result
                Ok(t) if t.n() == n && t.fam() != fam => match t.convert(n) {
                    Ok(back) => tab(back),
                    Err(()) => (Outcome::ParseErr, None),
                },
                Ok(t) => tab(t),
                Err(()) => (Outcome::ParseErr, None),
            }
        }
        Op::CofactorRoundTrip(i) => {
            let (c0, c1) = a.cofactors(*i);
            tab(c0.from_cofactors(c1.as_ref(), *i))
        }
        Op::DoubleFlip(i) => tab(a.flip(*i).flip(*i)),
        Op::XorTwice => {
            let t = a.bin_form(BinOp::Xor, 5, b);
            tab(t.bin_form(BinOp::Xor, 3, b))
        }
        Op::Bin(op, form) => tab(a.bin_form(*op, *form, b)),
        Op::FromCofactors(i) => tab(a.from_cofactors(b, *i)),
        Op::Value(m) => (Outcome::Bool(a.value(*m)), None),
        Op::GetBit(m) => (Outcome::Bool(a.get_bit(*m)), None),
        Op::TopDecomp(i) => (Outcome::Str(a.top_decomposition(*i)), None),
        Op::PosUnate(i) => (Outcome::Bool(a.is_pos_unate(*i)), None),
        Op::NegUnate(i) => (Outcome::Bool(a.is_neg_unate(*i)), None),
        Op::ToHex => (Outcome::Str(a.to_hex()), None),
        Op::ToBin => (Outcome::Str(a.to_bin()), None),
        Op::Display => (Outcome::Str(a.fmt_display()), None),
        Op::LowerHex => (Outcome::Str(a.fmt_lower_hex()), None),
        Op::Format(k) => (Outcome::Str(a.fmt_spec(*k)), None),
        Op::Binary => (Outcome::Str(a.fmt_binary()), None),
        Op::ToInt => match a.to_int() {
            Some(v) => (Outcome::Num(v), None),
            None => (Outcome::Opaque, None),
        },
        Op::NumVars => (Outcome::Num(a.n() as u64), None),
        Op::NumBits => (Outcome::Num(a.num_bits() as u64), None),
        Op::NumBlocks => (Outcome::Num(a.num_blocks() as u64), None),
        Op::Blocks => (Outcome::Words(a.blocks()), None),
        Op::Cmp => (Outcome::Ord(ord_i8(a.cmp_(b))), None),
        Op::PartialCmp => (
            Outcome::Ord(a.partial_cmp_(b).map(ord_i8).unwrap_or(9)),
            None,
        ),
        Op::Eq => (Outcome::Bool(a.eq_(b) && !a.ne_(b)), None),
        Op::Rel => {
            let (l, le, g, ge) = a.rel_(b);
            (Outcome::Rel(l, le, g, ge), None)
        }
        Op::Bdd(k) => {
            let mut others: Vec<&dyn Tab> = vec![b];
            for (i, s) in slots.iter().enumerate() {
                if others.len() > *k {
                    break;
                }
                if i != st.a && i != st.b {
                    others.push(s.as_ref());
                }
            }
            (Outcome::Num(a.bdd_complexity_with(&others) as u64), None)
        }
        Op::BddEmpty => (Outcome::Num(f.bdd_complexity_empty(n) as u64), None),
    }
}

/// Load the initial pool. Err if the library cannot load a well-formed table.
pub fn init_pool(fam: Fam, h: &History) -> Result<Vec<T>, String> {
    let f = fam.get();
    let mut v = Vec::new();
    for t in &h.init {
        let x = guard(|| f.from_blocks(h.n, &t.w)).map_err(|p| format!("from_blocks panicked: {}", p))?;
        v.push(x);
    }
    Ok(v)
}

/// Run a history. `observe(step index, step, outcome, pool, changed slot, produced table)` is called after every
/// step and may stop the run by returning Err.
pub fn run_history<F>(fam: Fam, h: &History, mut observe: F) -> Result<Vec<Outcome>, String>
where
    F: FnMut(usize, &Step, &Outcome, &[T], Option<usize>, Option<&dyn Tab>) -> Result<(), String>,
{
    let mut pool = init_pool(fam, h)?;
    let mut outs = Vec::with_capacity(h.steps.len());
    for (k, st) in h.steps.iter().enumerate() {
        let r = guard(|| exec_inner(fam, h.n, &pool, st));
        match r {
            Err(p) => {
                outs.push(Outcome::Panic);
                observe(k, st, &Outcome::Panic, &pool, None, None)
                    .map_err(|e| format!("{} [{}]", e, p))?;
                // a panic on valid arguments ends the history (state may be inconsistent)
                return Ok(outs);
            }
            Ok((o, newv)) => {
                let mut changed = None;
                let mut stray: Option<T> = None;
                if let Some(t) = newv {
                    if t.n() == h.n && t.fam() == fam {
                        pool[st.dst] = t;
                        changed = Some(st.dst);
                    } else {
                        // a produced table of another size (Lut::default(), or a defect): not stored,
                        // but still shown to the observer
                        stray = Some(t);
                    }
                }
                let produced: Option<&dyn Tab> = match (changed, &stray) {
                    (Some(d), _) => Some(pool[d].as_ref()),
                    (None, Some(t)) => Some(t.as_ref()),
                    _ => None,
                };
                observe(k, st, &o, &pool, changed, produced)?;
                outs.push(o);
            }
        }
    }
    Ok(outs)
}

// ---------------------------------------------------------------------------------------------
// generators

#[derive(Clone, Copy, Debug)]
pub struct OpOptions {
    /// include random() (results are not comparable between runs)
    pub random: bool,
    /// include arbitrary strings for from_hex_string
    pub raw_hex: bool,
    /// largest n for which canonizations are generated
    pub canon_max_n: usize,
    /// include the hook-based successor
    pub successor: bool,
}

pub fn arb_op(n: usize, fam: Fam, o: OpOptions) -> BoxedStrategy<Op> {
    let size = 1usize << n;
    let mut v: Vec<(u32, BoxedStrategy<Op>)> = vec![
        (1, Just(Op::Zero).boxed()),
        (1, Just(Op::One).boxed()),
        (1, Just(Op::Parity).boxed()),
        (1, Just(Op::Majority).boxed()),
        (2, prop_oneof![0..=n + 2, Just(63usize), Just(64usize), Just(65usize), Just(usize::MAX)].prop_map(Op::Threshold).boxed()),
        (2, prop_oneof![0..=n + 2, Just(63usize), Just(64usize), Just(65usize), Just(usize::MAX)].prop_map(Op::Equals).boxed()),
        (2, any::<usize>().prop_map(Op::Symmetric).boxed()),
        (1, Just(Op::Default).boxed()),
        (3, arb_tt(n).prop_map(|t| Op::FromBlocks(t.w)).boxed()),
        (1, (0..(if n >= 3 { 256usize } else { 1usize << size })).prop_map(Op::AllFunctionsNth).boxed()),
        // nth at or beyond the end of the enumeration (n <= 3: up to several times the function space)
        (1, (if n <= 3 { (1usize << size)..(5usize << size) + 1100 } else { 256usize..1500 }).prop_map(Op::AllFunctionsNth).boxed()),
        (1, Just(Op::Clone).boxed()),
        (2, (0usize..=13).prop_map(Op::CloneFrom).boxed()),
        (4, (0usize..4).prop_map(Op::Not).boxed()),
        (3, (0..size).prop_map(Op::SetBit).boxed()),
        (3, (0..size).prop_map(Op::UnsetBit).boxed()),
        (2, (0..size, any::<bool>()).prop_map(|(m, b)| Op::SetValue(m, b)).boxed()),
        (2, Just(Op::HexRoundTrip).boxed()),
        (2, Just(Op::ConvRoundTrip).boxed()),
        (2, (0usize..=13).prop_map(Op::ConvertTo).boxed()),
        (1, Just(Op::XorTwice).boxed()),
        (9, (prop_oneof![Just(BinOp::And), Just(BinOp::Or), Just(BinOp::Xor)], 0usize..8).prop_map(|(op, f)| Op::Bin(op, f)).boxed()),
        (1, (0..size).prop_map(Op::Value).boxed()),
        (1, (0..size).prop_map(Op::GetBit).boxed()),
        (1, Just(Op::ToHex).boxed()),
        (1, Just(Op::ToBin).boxed()),
        (1, Just(Op::Display).boxed()),
        (1, Just(Op::LowerHex).boxed()),
        (2, (0usize..crate::adapter::FMT_SPECS.len()).prop_map(Op::Format).boxed()),
        (1, Just(Op::Binary).boxed()),
        (1, Just(Op::NumVars).boxed()),
        (1, Just(Op::NumBits).boxed()),
        (1, Just(Op::NumBlocks).boxed()),
        (1, Just(Op::Blocks).boxed()),
        (2, Just(Op::Cmp).boxed()),
        (1, Just(Op::PartialCmp).boxed()),
        (2, Just(Op::Eq).boxed()),
        (1, Just(Op::Rel).boxed()),
        (2, (0usize..3).prop_map(Op::Bdd).boxed()),
        (1, Just(Op::BddEmpty).boxed()),
    ];
    if n >= 1 {
        v.push((2, (0..n).prop_map(Op::NthVar).boxed()));
        v.push((5, (arb_var(n), any::<bool>()).prop_map(|(i, b)| Op::Flip(i, b)).boxed()));
        v.push((6, (arb_ij(n), any::<bool>()).prop_map(|((i, j), b)| Op::Swap(i, j, b)).boxed()));
        v.push((3, arb_var(n).prop_map(Op::Cofactor0).boxed()));
        v.push((3, arb_var(n).prop_map(Op::Cofactor1).boxed()));
        v.push((2, arb_var(n).prop_map(Op::CofactorRoundTrip).boxed()));
        v.push((2, arb_var(n).prop_map(Op::DoubleFlip).boxed()));
        v.push((4, arb_var(n).prop_map(Op::FromCofactors).boxed()));
        v.push((1, arb_var(n).prop_map(Op::TopDecomp).boxed()));
        v.push((1, arb_var(n).prop_map(Op::PosUnate).boxed()));
        v.push((1, arb_var(n).prop_map(Op::NegUnate).boxed()));
    }
    if n >= 2 {
        v.push((3, (0..n - 1, any::<bool>()).prop_map(|(i, b)| Op::SwapAdjacent(i, b)).boxed()));
    }
    if n <= o.canon_max_n {
        v.push((1, Just(Op::PCanon).boxed()));
        v.push((1, Just(Op::NCanon).boxed()));
        v.push((1, Just(Op::NpnCanon).boxed()));
    }
    // conversions from two-level forms (non-contradictory cubes over the n variables)
    v.push((1, crate::sopx::arb_cube_list(n, 4).prop_map(Op::FromSop).boxed()));
    v.push((1, crate::sopx::arb_cube_list(n, 4).prop_map(Op::FromEsop).boxed()));
    v.push((1, vec(crate::sopx::arb_eb(n), 0..=4).prop_map(Op::FromSoes).boxed()));
    if n <= 3 {
        // the item a complete run ends with, through each consuming adaptor of the library's iterator
        v.push((1, (0u8..6).prop_map(Op::AllFunctionsConsume).boxed()));
    }
    if o.random {
        v.push((3, Just(Op::Random).boxed()));
    }
    if o.raw_hex {
        v.push((4, arb_hex_input(n).prop_map(Op::FromHexRaw).boxed()));
    }
    if o.successor {
        v.push((3, Just(Op::Successor).boxed()));
    }
    if fam == Fam::Static && (3..=6).contains(&n) {
        let m = crate::model::mask_for(n);
        v.push((2, any::<u64>().prop_map(move |x| Op::FromInt(x & m)).boxed()));
        v.push((1, Just(Op::ToInt).boxed()));
    }
    proptest::strategy::Union::new_weighted(v).boxed()
}

pub fn arb_step(n: usize, fam: Fam, o: OpOptions) -> BoxedStrategy<Step> {
    (arb_op(n, fam, o), 0..SLOTS, 0..SLOTS, 0..SLOTS)
        .prop_map(|(op, a, b, dst)| Step { op, a, b, dst })
        .boxed()
}

pub fn arb_history(n: usize, fam: Fam, o: OpOptions, min_len: usize, max_len: usize) -> BoxedStrategy<History> {
    (vec(arb_tt(n), SLOTS), vec(arb_step(n, fam, o), min_len..=max_len))
        .prop_map(move |(init, steps)| History { n, init, steps })
        .boxed()
}
