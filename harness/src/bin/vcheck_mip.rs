fn main() {
    std::process::exit(vharness::cli::main_with(vharness::props::registry_mip()));
}
