//! Property-based testing engine: seeded proptest runners sharded over threads, exhaustive
//! enumerators, counting/labelling, shrinking, replay files, known findings, evidence.

use std::cell::RefCell;
use std::collections::hash_map::DefaultHasher;
use std::collections::{BTreeMap, HashSet};
use std::fmt::Debug;
use std::hash::{Hash, Hasher};
use std::panic::{catch_unwind, AssertUnwindSafe};
use std::path::PathBuf;
use std::time::Instant;

use proptest::strategy::{BoxedStrategy, Strategy};
use proptest::test_runner::{Config, RngAlgorithm, RngSeed, TestCaseError, TestError, TestRunner};
use rayon::prelude::*;
use serde::de::DeserializeOwned;
use serde::Serialize;
use serde_json::{json, Value};

#[derive(Clone, Copy, Debug, PartialEq, Eq)]
pub enum Tier {
    Quick,
    Thorough,
}

impl Tier {
    pub fn name(self) -> &'static str {
        match self {
            Tier::Quick => "quick",
            Tier::Thorough => "thorough",
        }
    }
    /// pick by tier
    pub fn pick<X>(self, q: X, t: X) -> X {
        match self {
            Tier::Quick => q,
            Tier::Thorough => t,
        }
    }
}

// ------------------------------------------------------------------------------------------
// panics

thread_local! {
    static LAST_PANIC: RefCell<String> = RefCell::new(String::new());
}

/// Install a silent panic hook that records message and location per thread.
pub fn install_panic_hook() {
    std::panic::set_hook(Box::new(|info| {
        let msg = if let Some(s) = info.payload().downcast_ref::<&str>() {
            (*s).to_string()
        } else if let Some(s) = info.payload().downcast_ref::<String>() {
            s.clone()
        } else {
            "<non-string panic>".to_string()
        };
        let loc = info
            .location()
            .map(|l| format!("{}:{}", l.file(), l.line()))
            .unwrap_or_default();
        LAST_PANIC.with(|p| *p.borrow_mut() = format!("{} @ {}", msg, loc));
    }));
}

/// the hook is process-wide; nothing to do per thread (kept for clarity at call sites)
pub fn install_panic_hook_noop() {}

pub fn last_panic() -> String {
    LAST_PANIC.with(|p| p.borrow().clone())
}

/// Run a closure that calls the library; Err(description) if it panicked.
pub fn guard<R>(f: impl FnOnce() -> R) -> Result<R, String> {
    match catch_unwind(AssertUnwindSafe(f)) {
        Ok(r) => Ok(r),
        Err(_) => Err(last_panic()),
    }
}

// ------------------------------------------------------------------------------------------
// verdicts

#[derive(Clone, Debug)]
pub struct Pass {
    pub nontrivial: bool,
    pub labels: Vec<String>,
}

#[derive(Clone, Debug)]
pub struct Fail {
    /// short canonical class of the failure (used for known-findings matching)
    pub sig: String,
    pub msg: String,
}

pub type Verdict = Result<Pass, Fail>;

pub fn pass(nontrivial: bool, labels: Vec<String>) -> Verdict {
    Ok(Pass { nontrivial, labels })
}

pub fn fail<S: Into<String>, M: Into<String>>(sig: S, msg: M) -> Verdict {
    Err(Fail {
        sig: sig.into(),
        msg: msg.into(),
    })
}

#[macro_export]
macro_rules! ensure {
    ($cond:expr, $sig:expr, $($arg:tt)*) => {
        if !($cond) {
            return Err($crate::engine::Fail { sig: ($sig).to_string(), msg: format!($($arg)*) });
        }
    };
}

/// Unwrap a guarded library call on *valid* arguments: a panic is a violation.
#[macro_export]
macro_rules! lib {
    ($what:expr, $e:expr) => {
        match $crate::engine::guard(|| $e) {
            Ok(v) => v,
            Err(p) => {
                return Err($crate::engine::Fail {
                    sig: format!("panic:{}", $what),
                    msg: format!("{} panicked on valid arguments: {}", $what, p),
                })
            }
        }
    };
}

// ------------------------------------------------------------------------------------------
// known findings

#[derive(Clone, Debug, Default)]
pub struct Known {
    /// (property, signature prefix, description)
    pub open: Vec<(String, String, String)>,
}

impl Known {
    pub fn load(path: &std::path::Path) -> Known {
        let mut k = Known::default();
        if let Ok(s) = std::fs::read_to_string(path) {
            if let Ok(v) = serde_json::from_str::<Value>(&s) {
                if let Some(a) = v.get("open").and_then(|x| x.as_array()) {
                    for e in a {
                        let g = |f: &str| {
                            e.get(f)
                                .and_then(|x| x.as_str())
                                .unwrap_or("")
                                .to_string()
                        };
                        k.open.push((g("property"), g("signature"), g("what")));
                    }
                }
            }
        }
        k
    }
    /// an open finding matches when property is equal and the failure signature is equal
    pub fn matches(&self, prop: &str, sub: &str, sig: &str) -> Option<usize> {
        let full = format!("{}/{}", sub, sig);
        self.open
            .iter()
            .position(|(p, s, _)| p == prop && (*s == full || *s == sig))
    }
}

// ------------------------------------------------------------------------------------------
// context and reports

pub struct Ctx {
    pub prop: String,
    pub tier: Tier,
    pub seed: u64,
    pub profile: String,
    pub jobs: usize,
    pub known: Known,
    pub replay_dir: PathBuf,
    /// multiplies generated case counts (testing aid; 1.0 in registered commands)
    pub scale: f64,
}

#[derive(Clone, Debug, Default)]
pub struct Stats {
    pub evaluations: u64,
    pub nontrivial: u64,
    pub distinct: HashSet<u64>,
    pub labels: BTreeMap<String, u64>,
    pub samples: Vec<Value>,
    pub excluded_known: u64,
    pub known_hits: BTreeMap<usize, String>,
}

impl Stats {
    fn record<C: Serialize + Hash>(&mut self, case: &C, p: &Pass, exhaustive: bool) {
        let idx = self.evaluations;
        self.evaluations += 1;
        if p.nontrivial {
            self.nontrivial += 1;
            let mut h = DefaultHasher::new();
            case.hash(&mut h);
            self.distinct.insert(h.finish());
        }
        for l in &p.labels {
            *self.labels.entry(l.clone()).or_insert(0) += 1;
        }
        // deterministic sample schedule: a few early ones, then sparse; prefer non-trivial
        let take = if exhaustive {
            idx == 0 || (p.nontrivial && self.samples.len() < 4 && idx % 97 == 3)
        } else {
            (p.nontrivial && self.samples.len() < 3) || (idx > 0 && idx.is_power_of_two() && idx >= 64 && self.samples.len() < 6)
        };
        if take {
            if let Ok(v) = serde_json::to_value(case) {
                self.samples.push(v);
            }
        }
    }
    fn merge(&mut self, o: Stats) {
        self.evaluations += o.evaluations;
        self.nontrivial += o.nontrivial;
        self.distinct.extend(o.distinct);
        for (k, v) in o.labels {
            *self.labels.entry(k).or_insert(0) += v;
        }
        for s in o.samples {
            if self.samples.len() < 8 {
                self.samples.push(s);
            }
        }
        self.excluded_known += o.excluded_known;
        self.known_hits.extend(o.known_hits);
    }
}

#[derive(Clone, Debug)]
pub struct Violation {
    pub sub: String,
    pub sig: String,
    pub msg: String,
    pub case: Value,
    pub replay: String,
}

pub struct SubReport {
    pub name: String,
    pub rule: String,
    pub generated: Stats,
    pub exhaustive: Option<Stats>,
    pub exhaustive_note: String,
    pub violation: Option<Violation>,
    pub aborted: Option<String>,
    pub wall_s: f64,
}

impl SubReport {
    pub fn to_json(&self) -> Value {
        let st = |s: &Stats| {
            json!({
                "evaluations": s.evaluations,
                "nontrivial": s.nontrivial,
                "distinct_nontrivial": s.distinct.len(),
                "labels": s.labels,
                "samples": s.samples,
                "excluded_known": s.excluded_known,
            })
        };
        json!({
            "name": self.name,
            "rule": self.rule,
            "generated": st(&self.generated),
            "exhaustive_part": self.exhaustive.as_ref().map(st),
            "exhaustive_note": self.exhaustive_note,
            "violation": self.violation.as_ref().map(|v| json!({"sig": v.sig, "msg": v.msg, "replay": v.replay, "case": v.case})),
            "aborted": self.aborted,
            "wall_s": self.wall_s,
        })
    }
}

// ------------------------------------------------------------------------------------------
// subchecks

/// Enumerator for a finite sub-domain: calls `f` on every case of shard `shard` out of
/// `nshards`; `f` returns false to stop early.
pub type Enumerator<C> = fn(Tier, usize, usize, &mut dyn FnMut(C) -> bool);

pub struct Sub<C> {
    pub name: &'static str,
    /// how cases are generated and what makes one non-trivial
    pub rule: &'static str,
    pub strategy: fn(Tier) -> BoxedStrategy<C>,
    /// generated cases: (quick, thorough)
    pub cases: (u64, u64),
    pub exhaustive: Option<Enumerator<C>>,
    pub exhaustive_note: &'static str,
    pub run: fn(&C) -> Verdict,
}

pub trait AnySub: Sync + Send {
    fn name(&self) -> &'static str;
    fn run(&self, ctx: &Ctx) -> SubReport;
    fn replay(&self, case: &Value) -> Result<Verdict, String>;
}

fn eval<C>(run: fn(&C) -> Verdict, case: &C) -> Verdict {
    match catch_unwind(AssertUnwindSafe(|| run(case))) {
        Ok(v) => v,
        Err(_) => fail(
            "panic:unguarded",
            format!("panic while evaluating the case: {}", last_panic()),
        ),
    }
}

fn seed_bytes(seed: u64, name: &str, shard: u64) -> u64 {
    let mut h = DefaultHasher::new();
    // DefaultHasher::new() uses fixed keys: deterministic across runs and processes
    seed.hash(&mut h);
    name.hash(&mut h);
    shard.hash(&mut h);
    h.finish()
}

struct ShardOut<C> {
    stats: Stats,
    failure: Option<(C, Fail)>,
    aborted: Option<String>,
}

fn run_generated_shard<C>(sub: &Sub<C>, ctx: &Ctx, shard: usize, cases: u64) -> ShardOut<C>
where
    C: Debug + Clone + Serialize + Hash + 'static,
{
    let cfg = Config {
        cases: cases as u32,
        failure_persistence: None,
        rng_algorithm: RngAlgorithm::ChaCha,
        rng_seed: RngSeed::Fixed(seed_bytes(ctx.seed, sub.name, shard as u64)),
        max_shrink_iters: 3000,
        // shrinking effort only (never a verdict): bound flat-map regeneration and wall time
        max_flat_map_regens: 50,
        max_shrink_time: 45_000,
        max_global_rejects: 1_000_000,
        verbose: 0,
        ..Config::default()
    };
    let mut runner = TestRunner::new(cfg);
    let strat = (sub.strategy)(ctx.tier);
    let stats = RefCell::new(Stats::default());
    let failed = std::cell::Cell::new(false);
    let res = runner.run(&strat, |case| match eval(sub.run, &case) {
        Ok(p) => {
            if !failed.get() {
                stats.borrow_mut().record(&case, &p, false);
            }
            Ok(())
        }
        Err(f) => {
            if let Some(k) = ctx.known.matches(&ctx.prop, sub.name, &f.sig) {
                if !failed.get() {
                    let mut s = stats.borrow_mut();
                    s.excluded_known += 1;
                    s.known_hits.entry(k).or_insert_with(|| f.msg.clone());
                }
                Ok(())
            } else {
                failed.set(true);
                Err(TestCaseError::fail(f.msg))
            }
        }
    });
    let mut out = ShardOut {
        stats: stats.into_inner(),
        failure: None,
        aborted: None,
    };
    match res {
        Ok(()) => {}
        Err(TestError::Fail(_, case)) => {
            // re-evaluate the minimal case to get its final signature and message
            let f = match eval(sub.run, &case) {
                Err(f) => f,
                Ok(_) => Fail {
                    sig: "flaky".into(),
                    msg: "shrunk case passed on re-evaluation (non-deterministic check?)".into(),
                },
            };
            out.failure = Some((case, f));
        }
        Err(TestError::Abort(r)) => {
            out.aborted = Some(format!("{}", r));
        }
    }
    out
}

fn write_replay<C: Serialize>(ctx: &Ctx, sub: &str, case: &C, f: &Fail) -> (String, Value) {
    let cv = serde_json::to_value(case).unwrap_or(Value::Null);
    let mut h = DefaultHasher::new();
    cv.to_string().hash(&mut h);
    let _ = std::fs::create_dir_all(&ctx.replay_dir);
    let path = ctx.replay_dir.join(format!(
        "{}-{}-{}-{:08x}.json",
        ctx.prop,
        sub,
        ctx.profile,
        h.finish() as u32
    ));
    let doc = json!({
        "property": ctx.prop,
        "subcheck": sub,
        "profile": ctx.profile,
        "tier": ctx.tier.name(),
        "seed": ctx.seed,
        "signature": f.sig,
        "message": f.msg,
        "case": cv,
    });
    let _ = std::fs::write(&path, serde_json::to_string_pretty(&doc).unwrap());
    (path.to_string_lossy().to_string(), cv)
}

impl<C> AnySub for Sub<C>
where
    C: Debug + Clone + Serialize + DeserializeOwned + Hash + Send + 'static,
{
    fn name(&self) -> &'static str {
        self.name
    }

    fn run(&self, ctx: &Ctx) -> SubReport {
        let t0 = Instant::now();
        let mut rep = SubReport {
            name: self.name.to_string(),
            rule: self.rule.to_string(),
            generated: Stats::default(),
            exhaustive: None,
            exhaustive_note: self.exhaustive_note.to_string(),
            violation: None,
            aborted: None,
            wall_s: 0.0,
        };
        let jobs = ctx.jobs.max(1);

        // 1. exhaustive part
        if let Some(enumerate) = self.exhaustive {
            let outs: Vec<(Stats, Option<(C, Fail)>)> = (0..jobs)
                .into_par_iter()
                .map(|shard| {
                    let mut stats = Stats::default();
                    let mut failure: Option<(C, Fail)> = None;
                    enumerate(ctx.tier, shard, jobs, &mut |case: C| {
                        match eval(self.run, &case) {
                            Ok(p) => {
                                stats.record(&case, &p, true);
                                true
                            }
                            Err(f) => {
                                if let Some(k) = ctx.known.matches(&ctx.prop, self.name, &f.sig) {
                                    stats.excluded_known += 1;
                                    stats.known_hits.entry(k).or_insert_with(|| f.msg.clone());
                                    true
                                } else {
                                    failure = Some((case, f));
                                    false
                                }
                            }
                        }
                    });
                    (stats, failure)
                })
                .collect();
            let mut st = Stats::default();
            let mut first: Option<(C, Fail)> = None;
            for (s, f) in outs {
                st.merge(s);
                if first.is_none() {
                    first = f;
                }
            }
            rep.exhaustive = Some(st);
            if let Some((case, f)) = first {
                let (path, cv) = write_replay(ctx, self.name, &case, &f);
                rep.violation = Some(Violation {
                    sub: self.name.to_string(),
                    sig: f.sig,
                    msg: f.msg,
                    case: cv,
                    replay: path,
                });
                rep.wall_s = t0.elapsed().as_secs_f64();
                return rep;
            }
        }

        // 2. generated part
        let total = ((ctx.tier.pick(self.cases.0, self.cases.1) as f64) * ctx.scale).ceil() as u64;
        if total > 0 {
            let shards = std::cmp::min(jobs as u64, total.max(1)) as usize;
            let per = (total + shards as u64 - 1) / shards as u64;
            let outs: Vec<ShardOut<C>> = (0..shards)
                .into_par_iter()
                .map(|s| run_generated_shard(self, ctx, s, per))
                .collect();
            let mut first: Option<(C, Fail)> = None;
            for o in outs {
                rep.generated.merge(o.stats);
                if first.is_none() {
                    first = o.failure;
                }
                if rep.aborted.is_none() {
                    rep.aborted = o.aborted;
                }
            }
            if let Some((case, f)) = first {
                let (path, cv) = write_replay(ctx, self.name, &case, &f);
                rep.violation = Some(Violation {
                    sub: self.name.to_string(),
                    sig: f.sig,
                    msg: f.msg,
                    case: cv,
                    replay: path,
                });
            }
        }
        rep.wall_s = t0.elapsed().as_secs_f64();
        rep
    }

    fn replay(&self, case: &Value) -> Result<Verdict, String> {
        let c: C = serde_json::from_value(case.clone()).map_err(|e| format!("bad case: {}", e))?;
        Ok(eval(self.run, &c))
    }
}

// ------------------------------------------------------------------------------------------
// property-level run

pub struct PropDef {
    pub id: &'static str,
    pub rule: &'static str,
    pub assumptions: Vec<&'static str>,
    pub subs: Vec<Box<dyn AnySub>>,
}

pub struct PropOutcome {
    pub evidence: Value,
    pub violations: Vec<Violation>,
    pub known_lines: Vec<String>,
    pub aborted: Vec<String>,
}

pub fn run_property(def: &PropDef, ctx: &Ctx, only: Option<&str>) -> PropOutcome {
    let t0 = Instant::now();
    let mut reports = Vec::new();
    for s in &def.subs {
        if let Some(o) = only {
            if s.name() != o {
                continue;
            }
        }
        reports.push(s.run(ctx));
    }
    let mut evaluations = 0u64;
    let mut distinct = 0u64;
    let mut excluded = 0u64;
    let mut samples: Vec<Value> = Vec::new();
    let mut violations = Vec::new();
    let mut known_lines = Vec::new();
    let mut aborted = Vec::new();
    let mut exhaustive_parts = Vec::new();
    let mut all_exhaustive = true;
    for r in &reports {
        evaluations += r.generated.evaluations;
        distinct += r.generated.distinct.len() as u64;
        excluded += r.generated.excluded_known;
        for (k, m) in &r.generated.known_hits {
            known_lines.push(format!(
                "KNOWN-FINDING: property={} {} [{}] e.g. {}",
                ctx.prop, ctx.known.open[*k].2, ctx.known.open[*k].1, m
            ));
        }
        if r.generated.evaluations > 0 {
            all_exhaustive = false;
        }
        if let Some(e) = &r.exhaustive {
            evaluations += e.evaluations;
            distinct += e.distinct.len() as u64;
            excluded += e.excluded_known;
            for (k, m) in &e.known_hits {
                known_lines.push(format!(
                    "KNOWN-FINDING: property={} {} [{}] e.g. {}",
                    ctx.prop, ctx.known.open[*k].2, ctx.known.open[*k].1, m
                ));
            }
            exhaustive_parts.push(json!({"subcheck": r.name, "bound": r.exhaustive_note, "evaluations": e.evaluations}));
            for s in e.samples.iter().take(2) {
                samples.push(json!({"subcheck": r.name, "part": "exhaustive", "case": s}));
            }
        }
        for s in r.generated.samples.iter().take(3) {
            samples.push(json!({"subcheck": r.name, "part": "generated", "case": s}));
        }
        if let Some(v) = &r.violation {
            violations.push(v.clone());
        }
        if let Some(a) = &r.aborted {
            aborted.push(format!("{}: {}", r.name, a));
        }
    }
    known_lines.sort();
    known_lines.dedup();
    let evidence = json!({
        "property_id": ctx.prop,
        "tier": ctx.tier.name(),
        "seed": ctx.seed,
        "level": "exploration",
        "profile": ctx.profile,
        "coverage": {
            "evaluations": evaluations,
            "distinct_nontrivial": distinct,
            "rule": def.rule,
            "samples": samples,
            "exhaustive": all_exhaustive && !reports.is_empty(),
            "exhaustive_parts": exhaustive_parts,
            "excluded_known": excluded,
            "subchecks": reports.iter().map(|r| r.to_json()).collect::<Vec<_>>(),
        },
        "assumptions": def.assumptions,
        "wall_s": t0.elapsed().as_secs_f64(),
        "violations": violations.len(),
    });
    PropOutcome {
        evidence,
        violations,
        known_lines,
        aborted,
    }
}

// small helpers used by the property modules ------------------------------------------------

pub fn boxed<S: Strategy + 'static>(s: S) -> BoxedStrategy<S::Value> {
    s.boxed()
}

/// shard filter for enumerators
pub struct ShardCounter {
    i: usize,
    shard: usize,
    n: usize,
}
impl ShardCounter {
    pub fn new(shard: usize, n: usize) -> Self {
        ShardCounter { i: 0, shard, n }
    }
    pub fn mine(&mut self) -> bool {
        let r = self.i % self.n == self.shard;
        self.i += 1;
        r
    }
}
