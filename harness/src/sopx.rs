//! Models, build descriptions and generators for the two-level forms (Cube, Ecube, Sop, Esop,
//! Soes). A *build description* says through which public constructors / operators a library
//! object is made; its meaning is computed independently by the literal-set model below.

use std::collections::{BTreeMap, BTreeSet};

use proptest::collection::vec;
use proptest::prelude::*;
use serde::{Deserialize, Serialize};

use volute::sop::{Cube, Ecube, Esop, Soes, Sop};
use volute::Lut;

use crate::model::Tt;

// =============================================================================================
// Cube

/// Semantic model of a cube: contradiction, or a set of literals (var -> polarity)
#[derive(Clone, Debug, PartialEq, Eq, Hash, PartialOrd, Ord)]
pub enum CubeM {
    Zero,
    Lits(BTreeMap<usize, bool>),
}

impl CubeM {
    pub fn one() -> CubeM {
        CubeM::Lits(BTreeMap::new())
    }
    pub fn lit(v: usize, pos: bool) -> CubeM {
        let mut m = BTreeMap::new();
        m.insert(v, pos);
        CubeM::Lits(m)
    }
    pub fn value(&self, m: u64) -> bool {
        match self {
            CubeM::Zero => false,
            CubeM::Lits(l) => l.iter().all(|(v, pos)| ((m >> v) & 1 != 0) == *pos),
        }
    }
    pub fn and(&self, o: &CubeM) -> CubeM {
        match (self, o) {
            (CubeM::Lits(a), CubeM::Lits(b)) => {
                let mut r = a.clone();
                for (v, p) in b {
                    match r.get(v) {
                        Some(q) if q != p => return CubeM::Zero,
                        _ => {
                            r.insert(*v, *p);
                        }
                    }
                }
                CubeM::Lits(r)
            }
            _ => CubeM::Zero,
        }
    }
    pub fn num_lits(&self) -> usize {
        match self {
            CubeM::Zero => 0,
            CubeM::Lits(l) => l.len(),
        }
    }
    /// literal-set theorem: a => b iff a is contradictory, or b's literals are among a's
    pub fn implies(&self, o: &CubeM) -> bool {
        match (self, o) {
            (CubeM::Zero, _) => true,
            (_, CubeM::Zero) => false,
            (CubeM::Lits(a), CubeM::Lits(b)) => b.iter().all(|(v, p)| a.get(v) == Some(p)),
        }
    }
    pub fn intersects(&self, o: &CubeM) -> bool {
        self.and(o) != CubeM::Zero
    }
    /// an assignment (over 32 variables) satisfying the cube, free variables taken from `fill`
    pub fn satisfying(&self, fill: u32) -> Option<u32> {
        match self {
            CubeM::Zero => None,
            CubeM::Lits(l) => {
                let mut m = fill;
                for (v, p) in l {
                    if *p {
                        m |= 1 << v;
                    } else {
                        m &= !(1 << v);
                    }
                }
                Some(m)
            }
        }
    }
    /// read a library cube back through pos_vars()/neg_vars()
    pub fn of(c: &Cube) -> CubeM {
        let pos: BTreeSet<usize> = c.pos_vars().collect();
        let neg: BTreeSet<usize> = c.neg_vars().collect();
        if pos.intersection(&neg).next().is_some() {
            return CubeM::Zero;
        }
        let mut m = BTreeMap::new();
        for v in pos {
            m.insert(v, true);
        }
        for v in neg {
            m.insert(v, false);
        }
        CubeM::Lits(m)
    }
    pub fn max_var(&self) -> Option<usize> {
        match self {
            CubeM::Zero => None,
            CubeM::Lits(l) => l.keys().max().copied(),
        }
    }
    pub fn show(&self) -> String {
        match self {
            CubeM::Zero => "0".into(),
            CubeM::Lits(l) if l.is_empty() => "1".into(),
            CubeM::Lits(l) => l.iter().map(|(v, p)| format!("{}x{}", if *p { "" } else { "!" }, v)).collect::<Vec<_>>().join(""),
        }
    }
}

/// How a library cube is built
#[derive(Clone, Debug, PartialEq, Eq, Hash, Serialize, Deserialize)]
pub enum CB {
    One,
    Zero,
    NthVar(usize),
    NthVarInv(usize),
    FromVars(Vec<usize>, Vec<usize>),
    FromMask(u32, u32),
    Minterm(usize, usize),
    /// a & b in one of the four reference forms
    And(Box<CB>, Box<CB>, u8),
}

impl CB {
    pub fn build(&self) -> Cube {
        match self {
            CB::One => Cube::one(),
            CB::Zero => Cube::zero(),
            CB::NthVar(v) => Cube::nth_var(*v),
            CB::NthVarInv(v) => Cube::nth_var_inv(*v),
            CB::FromVars(p, n) => Cube::from_vars(p, n),
            CB::FromMask(p, n) => Cube::from_mask(*p, *n),
            CB::Minterm(n, m) => Cube::minterm(*n, *m),
            CB::And(a, b, form) => {
                let (x, y) = (a.build(), b.build());
                cube_and(&x, &y, *form)
            }
        }
    }
    pub fn model(&self) -> CubeM {
        match self {
            CB::One => CubeM::one(),
            CB::Zero => CubeM::Zero,
            CB::NthVar(v) => CubeM::lit(*v, true),
            CB::NthVarInv(v) => CubeM::lit(*v, false),
            CB::FromVars(p, n) => {
                let mut r = CubeM::one();
                for v in p {
                    r = r.and(&CubeM::lit(*v, true));
                }
                for v in n {
                    r = r.and(&CubeM::lit(*v, false));
                }
                r
            }
            CB::FromMask(p, n) => {
                let mut r = CubeM::one();
                for v in 0..32 {
                    if (p >> v) & 1 != 0 {
                        r = r.and(&CubeM::lit(v, true));
                    }
                    if (n >> v) & 1 != 0 {
                        r = r.and(&CubeM::lit(v, false));
                    }
                }
                r
            }
            CB::Minterm(n, m) => {
                let mut r = CubeM::one();
                for v in 0..*n {
                    r = r.and(&CubeM::lit(v, (m >> v) & 1 != 0));
                }
                r
            }
            CB::And(a, b, _) => a.model().and(&b.model()),
        }
    }
}

pub fn cube_and(x: &Cube, y: &Cube, form: u8) -> Cube {
    match form % 4 {
        0 => *x & *y,
        1 => x & *y,
        2 => x & y,
        _ => *x & y,
    }
}

/// cubes over variables < nv (nv <= 32), through every constructor
pub fn arb_cb(nv: usize) -> BoxedStrategy<CB> {
    assert!(nv <= 32);
    if nv == 0 {
        return prop_oneof![Just(CB::One), Just(CB::Zero), Just(CB::FromVars(vec![], vec![])), Just(CB::FromMask(0, 0)), Just(CB::Minterm(0, 0))].boxed();
    }
    let vmask: u32 = if nv == 32 { !0 } else { (1u32 << nv) - 1 };
    let leaf = prop_oneof![
        1 => Just(CB::One),
        1 => Just(CB::Zero),
        2 => (0..nv).prop_map(CB::NthVar),
        2 => (0..nv).prop_map(CB::NthVarInv),
        4 => (vec(0..nv, 0..=4), vec(0..nv, 0..=4)).prop_map(|(p, n)| CB::FromVars(p, n)),
        4 => (any::<u32>(), any::<u32>(), any::<u32>()).prop_map(move |(p, n, keep)| {
            // mostly disjoint masks, sometimes overlapping (contradiction)
            let p = p & vmask & keep;
            let n = n & vmask & !keep;
            CB::FromMask(p, n)
        }),
        1 => (any::<u32>(), any::<u32>()).prop_map(move |(p, n)| CB::FromMask(p & n & vmask | (p & 3 & vmask), n & vmask & (p | 0xf))),
        2 => (0..=std::cmp::min(nv, 31), any::<u32>()).prop_map(|(n, m)| CB::Minterm(n, (m as usize) & ((1usize << n) - 1))),
        // full support: a literal of every variable (the all-ones mask boundary)
        1 => any::<u32>().prop_map(move |pol| CB::FromMask(pol & vmask, !pol & vmask)),
    ];
    leaf.prop_recursive(3, 8, 2, |inner| (inner.clone(), inner, 0u8..4).prop_map(|(a, b, f)| CB::And(Box::new(a), Box::new(b), f)))
        .boxed()
}

// =============================================================================================
// Ecube

#[derive(Clone, Debug, PartialEq, Eq, Hash, PartialOrd, Ord)]
pub struct EcubeM {
    pub vars: BTreeSet<usize>,
    pub xnor: bool,
}

impl EcubeM {
    pub fn value(&self, m: u64) -> bool {
        let mut p = self.xnor;
        for v in &self.vars {
            p ^= (m >> v) & 1 != 0;
        }
        p
    }
    pub fn xor(&self, o: &EcubeM) -> EcubeM {
        EcubeM {
            vars: self.vars.symmetric_difference(&o.vars).copied().collect(),
            xnor: self.xnor ^ o.xnor,
        }
    }
    pub fn not(&self) -> EcubeM {
        EcubeM { vars: self.vars.clone(), xnor: !self.xnor }
    }
    pub fn of(e: &Ecube) -> EcubeM {
        // read back through vars() and the value on the all-zero assignment
        EcubeM { vars: e.vars().collect(), xnor: e.value(0) }
    }
    pub fn show(&self) -> String {
        let mut v: Vec<String> = Vec::new();
        if self.xnor {
            v.push("1".into());
        }
        for x in &self.vars {
            v.push(format!("x{}", x));
        }
        if v.is_empty() {
            "0".into()
        } else {
            v.join("^")
        }
    }
}

#[derive(Clone, Debug, PartialEq, Eq, Hash, Serialize, Deserialize)]
pub enum EB {
    One,
    Zero,
    NthVar(usize),
    NthVarInv(usize),
    FromVars(Vec<usize>, bool),
    Xor(Box<EB>, Box<EB>, u8),
    Not(Box<EB>, u8),
}

impl EB {
    pub fn build(&self) -> Ecube {
        match self {
            EB::One => Ecube::one(),
            EB::Zero => Ecube::zero(),
            EB::NthVar(v) => Ecube::nth_var(*v),
            EB::NthVarInv(v) => Ecube::nth_var_inv(*v),
            EB::FromVars(v, x) => Ecube::from_vars(v, *x),
            EB::Xor(a, b, form) => {
                let (x, y) = (a.build(), b.build());
                match form % 4 {
                    0 => x ^ y,
                    1 => &x ^ y,
                    2 => &x ^ &y,
                    _ => x ^ &y,
                }
            }
            EB::Not(a, form) => {
                let x = a.build();
                if form % 2 == 0 {
                    !x
                } else {
                    !&x
                }
            }
        }
    }
    pub fn model(&self) -> EcubeM {
        match self {
            EB::One => EcubeM { vars: BTreeSet::new(), xnor: true },
            EB::Zero => EcubeM { vars: BTreeSet::new(), xnor: false },
            EB::NthVar(v) => EcubeM { vars: [*v].into_iter().collect(), xnor: false },
            EB::NthVarInv(v) => EcubeM { vars: [*v].into_iter().collect(), xnor: true },
            // a variable listed several times is still one variable of the term
            EB::FromVars(v, x) => EcubeM { vars: v.iter().copied().collect(), xnor: *x },
            EB::Xor(a, b, _) => a.model().xor(&b.model()),
            EB::Not(a, _) => a.model().not(),
        }
    }
}

pub fn arb_eb(nv: usize) -> BoxedStrategy<EB> {
    assert!(nv <= 32);
    if nv == 0 {
        return prop_oneof![Just(EB::One), Just(EB::Zero), any::<bool>().prop_map(|x| EB::FromVars(vec![], x))].boxed();
    }
    let leaf = prop_oneof![
        1 => Just(EB::One),
        1 => Just(EB::Zero),
        2 => (0..nv).prop_map(EB::NthVar),
        2 => (0..nv).prop_map(EB::NthVarInv),
        6 => (vec(0..nv, 0..=5), any::<bool>()).prop_map(|(v, x)| EB::FromVars(v, x)),
        // full or nearly full support (all nv variables, possibly one missing)
        1 => (any::<bool>(), 0..=nv, any::<bool>()).prop_map(move |(x, skip, all)| EB::FromVars((0..nv).filter(|v| all || *v != skip).collect(), x)),
    ];
    leaf.prop_recursive(3, 8, 2, |inner| {
        prop_oneof![
            3 => (inner.clone(), inner.clone(), 0u8..4).prop_map(|(a, b, f)| EB::Xor(Box::new(a), Box::new(b), f)),
            1 => (inner, 0u8..2).prop_map(|(a, f)| EB::Not(Box::new(a), f)),
        ]
    })
    .boxed()
}

// =============================================================================================
// two-level forms: functions are tabulated over n variables

pub fn tabulate<F: Fn(u64) -> bool>(n: usize, f: F) -> Tt {
    Tt::from_fn(n, |m| f(m as u64))
}

pub fn lut_model(l: &Lut) -> Tt {
    Tt::from_fn(l.num_vars(), |m| l.value(m))
}

pub fn to_lut(t: &Tt) -> Lut {
    Lut::from_blocks(t.n, &t.w)
}

/// Sum-of-products build description (all sub-expressions over the same n)
#[derive(Clone, Debug, PartialEq, Eq, Hash, Serialize, Deserialize)]
pub enum SB {
    Zero,
    One,
    NthVar(usize),
    NthVarInv(usize),
    FromCubes(Vec<CB>),
    FromLut(Tt, bool),
    And(Box<SB>, Box<SB>, u8),
    Or(Box<SB>, Box<SB>, u8),
    Not(Box<SB>, u8),
}

pub fn sop_binop(a: Sop, b: Sop, and: bool, form: u8) -> Sop {
    match (and, form % 4) {
        (true, 0) => a & b,
        (true, 1) => &a & b,
        (true, 2) => &a & &b,
        (true, _) => a & &b,
        (false, 0) => a | b,
        (false, 1) => &a | b,
        (false, 2) => &a | &b,
        (false, _) => a | &b,
    }
}

/// cube lists with designed redundancy over n variables (n <= 10)
pub fn arb_cube_list(n: usize, max_base: usize) -> BoxedStrategy<Vec<CB>> {
    // mostly short lists; occasionally long ones (size boundaries such as 64 / 128 entries)
    let base = prop_oneof![
        60 => vec(arb_cb(n), 0..=max_base),
        1 => vec(arb_cb(n), 60..=140),
        1 => (vec(arb_cb(n), 1..=3), vec(0usize..3, 60..=140)).prop_map(|(b, idx)| idx.iter().map(|i| b[i % b.len()].clone()).collect::<Vec<CB>>()),
    ];
    (base, vec((0u8..8, any::<u16>(), any::<u16>(), any::<bool>()), 0..=6))
        .prop_map(move |(mut cubes, extras)| {
            // contradictions cannot be passed to from_cubes (it rejects variables >= num_vars
            // and the zero cube mentions all 32): keep only non-contradictory descriptions
            cubes.retain(|c| c.model() != CubeM::Zero);
            for (kind, i, v, pol) in extras {
                if cubes.is_empty() {
                    break;
                }
                let k = (i as usize) % cubes.len();
                let c = cubes[k].clone();
                let var = if n > 0 { (v as usize) % n } else { 0 };
                let lit = if pol { CB::NthVar(var) } else { CB::NthVarInv(var) };
                match kind {
                    // duplicate
                    0 | 1 => cubes.push(c),
                    // child (absorbed by c): c & literal
                    2 | 3 if n > 0 => {
                        let ch = CB::And(Box::new(c), Box::new(lit), (v % 4) as u8);
                        if ch.model() != CubeM::Zero {
                            cubes.push(ch);
                        }
                    }
                    // parent (absorbs c): drop one literal
                    4 => {
                        if let CubeM::Lits(l) = c.model() {
                            if let Some((&dv, _)) = l.iter().nth((v as usize) % l.len().max(1)) {
                                let (mut p, mut ng) = (vec![], vec![]);
                                for (x, pos) in &l {
                                    if *x != dv {
                                        if *pos { p.push(*x) } else { ng.push(*x) }
                                    }
                                }
                                cubes.push(CB::FromVars(p, ng));
                            }
                        }
                    }
                    // complementary literals x, !x
                    5 if n > 0 => {
                        cubes.push(CB::NthVar(var));
                        cubes.push(CB::NthVarInv(var));
                    }
                    // the empty cube
                    6 => {
                        if v % 4 == 0 {
                            cubes.push(CB::One)
                        }
                    }
                    _ => {}
                }
            }
            cubes
        })
        .boxed()
}

pub fn arb_sb(n: usize, depth: u32) -> BoxedStrategy<SB> {
    let var_leaf: BoxedStrategy<SB> = if n > 0 {
        prop_oneof![(0..n).prop_map(SB::NthVar), (0..n).prop_map(SB::NthVarInv)].boxed()
    } else {
        Just(SB::One).boxed()
    };
    let lut_leaf: BoxedStrategy<SB> = if n <= 6 {
        (crate::gen::arb_tt(n), any::<bool>()).prop_map(|(t, byval)| SB::FromLut(t, byval)).boxed()
    } else {
        // sparse on-sets only: a minterm cover of a dense 10-variable function is huge
        (vec(0..(1usize << n), 0..=8), any::<bool>())
            .prop_map(move |(ms, byval)| {
                let mut t = Tt::zero(n);
                for m in ms {
                    t.set(m, true);
                }
                SB::FromLut(t, byval)
            })
            .boxed()
    };
    let leaf = prop_oneof![
        1 => Just(SB::Zero),
        1 => Just(SB::One),
        2 => var_leaf,
        8 => arb_cube_list(n, 6).prop_map(SB::FromCubes),
        2 => lut_leaf,
    ];
    leaf.prop_recursive(depth, 12, 2, |inner| {
        prop_oneof![
            3 => (inner.clone(), inner.clone(), 0u8..4).prop_map(|(a, b, f)| SB::And(Box::new(a), Box::new(b), f)),
            3 => (inner.clone(), inner.clone(), 0u8..4).prop_map(|(a, b, f)| SB::Or(Box::new(a), Box::new(b), f)),
            2 => (inner, 0u8..2).prop_map(|(a, f)| SB::Not(Box::new(a), f)),
        ]
    })
    .boxed()
}

/// Esop build description
#[derive(Clone, Debug, PartialEq, Eq, Hash, Serialize, Deserialize)]
pub enum XB {
    Zero,
    One,
    NthVar(usize),
    NthVarInv(usize),
    FromCubes(Vec<CB>),
    FromLut(Tt, bool),
    Xor(Box<XB>, Box<XB>, u8),
    Not(Box<XB>, u8),
}

impl XB {
    pub fn build(&self, n: usize) -> Esop {
        match self {
            XB::Zero => Esop::zero(n),
            XB::One => Esop::one(n),
            XB::NthVar(v) => Esop::nth_var(n, *v),
            XB::NthVarInv(v) => Esop::nth_var_inv(n, *v),
            XB::FromCubes(cs) => Esop::from_cubes(n, cs.iter().map(|c| c.build()).collect()),
            XB::FromLut(t, byval) => {
                let l = to_lut(t);
                if *byval {
                    Esop::from(l)
                } else {
                    Esop::from(&l)
                }
            }
            XB::Xor(a, b, form) => {
                let (x, y) = (a.build(n), b.build(n));
                match form % 4 {
                    0 => x ^ y,
                    1 => &x ^ y,
                    2 => &x ^ &y,
                    _ => x ^ &y,
                }
            }
            XB::Not(a, form) => {
                let x = a.build(n);
                if form % 2 == 0 {
                    !x
                } else {
                    !&x
                }
            }
        }
    }
    pub fn model(&self, n: usize) -> Tt {
        match self {
            XB::Zero => Tt::zero(n),
            XB::One => Tt::one(n),
            XB::NthVar(v) => tabulate(n, |m| (m >> v) & 1 != 0),
            XB::NthVarInv(v) => tabulate(n, |m| (m >> v) & 1 == 0),
            XB::FromCubes(cs) => {
                let ms: Vec<CubeM> = cs.iter().map(|c| c.model()).collect();
                tabulate(n, |m| ms.iter().fold(false, |acc, c| acc ^ c.value(m)))
            }
            XB::FromLut(t, _) => t.clone(),
            XB::Xor(a, b, _) => a.model(n).xor(&b.model(n)),
            XB::Not(a, _) => a.model(n).not(),
        }
    }
}

pub fn arb_xb(n: usize) -> BoxedStrategy<XB> {
    let var_leaf: BoxedStrategy<XB> = if n > 0 {
        prop_oneof![(0..n).prop_map(XB::NthVar), (0..n).prop_map(XB::NthVarInv)].boxed()
    } else {
        Just(XB::One).boxed()
    };
    let leaf = prop_oneof![
        1 => Just(XB::Zero),
        1 => Just(XB::One),
        2 => var_leaf,
        8 => arb_cube_list(n, 6).prop_map(XB::FromCubes),
        2 => (crate::gen::arb_tt(std::cmp::min(n, 10)), any::<bool>()).prop_map(move |(t, b)| {
            if t.n == n { XB::FromLut(t, b) } else { XB::Zero }
        }),
    ];
    leaf.prop_recursive(3, 10, 2, |inner| {
        prop_oneof![
            3 => (inner.clone(), inner.clone(), 0u8..4).prop_map(|(a, b, f)| XB::Xor(Box::new(a), Box::new(b), f)),
            1 => (inner, 0u8..2).prop_map(|(a, f)| XB::Not(Box::new(a), f)),
        ]
    })
    .boxed()
}

/// Soes build description
#[derive(Clone, Debug, PartialEq, Eq, Hash, Serialize, Deserialize)]
pub enum OB {
    Zero,
    One,
    NthVar(usize),
    NthVarInv(usize),
    FromCubes(Vec<EB>),
    Or(Box<OB>, Box<OB>, u8),
}

impl OB {
    pub fn build(&self, n: usize) -> Soes {
        match self {
            OB::Zero => Soes::zero(n),
            OB::One => Soes::one(n),
            OB::NthVar(v) => Soes::nth_var(n, *v),
            OB::NthVarInv(v) => Soes::nth_var_inv(n, *v),
            OB::FromCubes(cs) => Soes::from_cubes(n, cs.iter().map(|c| c.build()).collect()),
            OB::Or(a, b, form) => {
                let (x, y) = (a.build(n), b.build(n));
                match form % 4 {
                    0 => x | y,
                    1 => &x | y,
                    2 => &x | &y,
                    _ => x | &y,
                }
            }
        }
    }
    pub fn model(&self, n: usize) -> Tt {
        match self {
            OB::Zero => Tt::zero(n),
            OB::One => Tt::one(n),
            OB::NthVar(v) => tabulate(n, |m| (m >> v) & 1 != 0),
            OB::NthVarInv(v) => tabulate(n, |m| (m >> v) & 1 == 0),
            OB::FromCubes(cs) => {
                let ms: Vec<EcubeM> = cs.iter().map(|c| c.model()).collect();
                tabulate(n, |m| ms.iter().any(|c| c.value(m)))
            }
            OB::Or(a, b, _) => a.model(n).or(&b.model(n)),
        }
    }
    pub fn num_terms(&self) -> usize {
        match self {
            OB::Zero => 0,
            OB::One | OB::NthVar(_) | OB::NthVarInv(_) => 1,
            OB::FromCubes(c) => c.len(),
            OB::Or(a, b, _) => a.num_terms() + b.num_terms(),
        }
    }
}

pub fn arb_ob(n: usize, max_terms: usize) -> BoxedStrategy<OB> {
    let var_leaf: BoxedStrategy<OB> = if n > 0 {
        prop_oneof![(0..n).prop_map(OB::NthVar), (0..n).prop_map(OB::NthVarInv)].boxed()
    } else {
        Just(OB::One).boxed()
    };
    let leaf = prop_oneof![
        1 => Just(OB::Zero),
        1 => Just(OB::One),
        2 => var_leaf,
        8 => vec(arb_eb(n), 0..=max_terms).prop_map(OB::FromCubes),
        // occasionally long term lists (size boundaries such as 64 / 128 terms): independent terms,
        // or a few base terms repeated many times (long but far from constant one)
        1 => prop_oneof![
            vec(arb_eb(n), 30..=140).boxed(),
            (vec(arb_eb(n), 1..=3), vec(0usize..3, 30..=140)).prop_map(|(base, idx)| idx.iter().map(|i| base[i % base.len()].clone()).collect::<Vec<EB>>()).boxed(),
        ].prop_map(OB::FromCubes),
    ];
    leaf.prop_recursive(2, 6, 2, |inner| (inner.clone(), inner, 0u8..4).prop_map(|(a, b, f)| OB::Or(Box::new(a), Box::new(b), f)))
        .boxed()
}

impl SB {
    /// plain construction (no checks; used by C16). Size guards as in C14.
    pub fn build(&self, n: usize) -> Sop {
        match self {
            SB::Zero => Sop::zero(n),
            SB::One => Sop::one(n),
            SB::NthVar(v) => Sop::nth_var(n, *v),
            SB::NthVarInv(v) => Sop::nth_var_inv(n, *v),
            SB::FromCubes(cs) => Sop::from_cubes(n, cs.iter().map(|c| c.build()).collect()),
            SB::FromLut(t, byval) => {
                let l = to_lut(t);
                if *byval {
                    Sop::from(l)
                } else {
                    Sop::from(&l)
                }
            }
            SB::And(a, b, form) => {
                let (x, y) = (a.build(n), b.build(n));
                if x.num_cubes() * y.num_cubes() > 1500 {
                    x
                } else {
                    sop_binop(x, y, true, *form)
                }
            }
            SB::Or(a, b, form) => sop_binop(a.build(n), b.build(n), false, *form),
            SB::Not(a, form) => {
                let x = a.build(n);
                if n > 8 || x.num_cubes() > 8 {
                    x
                } else if form % 2 == 0 {
                    !x
                } else {
                    !&x
                }
            }
        }
    }
}

// =============================================================================================
// forms over up to 32 variables: pointwise evaluation of a description and generators whose
// operator results stay small (the De Morgan product of `!` is exponential in the operand)

impl SB {
    pub fn eval_at(&self, m: u64) -> bool {
        match self {
            SB::Zero => false,
            SB::One => true,
            SB::NthVar(v) => (m >> v) & 1 != 0,
            SB::NthVarInv(v) => (m >> v) & 1 == 0,
            SB::FromCubes(cs) => cs.iter().any(|c| c.model().value(m)),
            SB::FromLut(t, _) => t.get((m as usize) & (t.size() - 1)),
            SB::And(a, b, _) => a.eval_at(m) && b.eval_at(m),
            SB::Or(a, b, _) => a.eval_at(m) || b.eval_at(m),
            SB::Not(a, _) => !a.eval_at(m),
        }
    }
    /// the cubes given to from_cubes anywhere in the description (for constructed assignments)
    pub fn leaf_cubes(&self, out: &mut Vec<CubeM>) {
        match self {
            SB::FromCubes(cs) => out.extend(cs.iter().map(|c| c.model())),
            SB::NthVar(v) => out.push(CubeM::lit(*v, true)),
            SB::NthVarInv(v) => out.push(CubeM::lit(*v, false)),
            SB::And(a, b, _) | SB::Or(a, b, _) => {
                a.leaf_cubes(out);
                b.leaf_cubes(out);
            }
            SB::Not(a, _) => a.leaf_cubes(out),
            _ => {}
        }
    }
}

impl XB {
    pub fn eval_at(&self, m: u64) -> bool {
        match self {
            XB::Zero => false,
            XB::One => true,
            XB::NthVar(v) => (m >> v) & 1 != 0,
            XB::NthVarInv(v) => (m >> v) & 1 == 0,
            XB::FromCubes(cs) => cs.iter().fold(false, |acc, c| acc ^ c.model().value(m)),
            XB::FromLut(t, _) => t.get((m as usize) & (t.size() - 1)),
            XB::Xor(a, b, _) => a.eval_at(m) ^ b.eval_at(m),
            XB::Not(a, _) => !a.eval_at(m),
        }
    }
    pub fn leaf_cubes(&self, out: &mut Vec<CubeM>) {
        match self {
            XB::FromCubes(cs) => out.extend(cs.iter().map(|c| c.model())),
            XB::NthVar(v) => out.push(CubeM::lit(*v, true)),
            XB::NthVarInv(v) => out.push(CubeM::lit(*v, false)),
            XB::Xor(a, b, _) => {
                a.leaf_cubes(out);
                b.leaf_cubes(out);
            }
            XB::Not(a, _) => a.leaf_cubes(out),
            _ => {}
        }
    }
}

impl OB {
    pub fn eval_at(&self, m: u64) -> bool {
        match self {
            OB::Zero => false,
            OB::One => true,
            OB::NthVar(v) => (m >> v) & 1 != 0,
            OB::NthVarInv(v) => (m >> v) & 1 == 0,
            OB::FromCubes(cs) => cs.iter().any(|c| c.model().value(m)),
            OB::Or(a, b, _) => a.eval_at(m) || b.eval_at(m),
        }
    }
    pub fn leaf_terms(&self, out: &mut Vec<EcubeM>) {
        match self {
            OB::FromCubes(cs) => out.extend(cs.iter().map(|c| c.model())),
            OB::Or(a, b, _) => {
                a.leaf_terms(out);
                b.leaf_terms(out);
            }
            _ => {}
        }
    }
}

/// a variable index below n, biased towards the top of the range and the 16 / 32 boundaries
pub fn arb_wide_var(n: usize) -> BoxedStrategy<usize> {
    assert!(n >= 1);
    let marks: Vec<usize> = [15usize, 16, 17, 30, 31].iter().copied().filter(|v| *v < n).collect();
    let lo = n.saturating_sub(3);
    if marks.is_empty() {
        prop_oneof![3 => 0..n, 1 => Just(n - 1), 1 => lo..n].boxed()
    } else {
        prop_oneof![3 => 0..n, 1 => Just(n - 1), 1 => lo..n, 1 => proptest::sample::select(marks)].boxed()
    }
}

/// a non-contradictory cube of at most `max_lits` literals over variables < n
pub fn arb_small_cube(n: usize, max_lits: usize) -> BoxedStrategy<CB> {
    vec((arb_wide_var(n), any::<bool>()), 0..=max_lits)
        .prop_map(|lits| {
            let mut seen = BTreeMap::new();
            for (v, p) in lits {
                seen.entry(v).or_insert(p);
            }
            let pos: Vec<usize> = seen.iter().filter(|(_, p)| **p).map(|(v, _)| *v).collect();
            let neg: Vec<usize> = seen.iter().filter(|(_, p)| !**p).map(|(v, _)| *v).collect();
            CB::FromVars(pos, neg)
        })
        .boxed()
}

/// Sop description over n (11..=32) variables whose operator results stay small: `!` only of
/// lists of <= 3 cubes of <= 4 literals, `&` of small operands
pub fn arb_sb_wide(n: usize) -> BoxedStrategy<SB> {
    let small = prop_oneof![
        2 => arb_wide_var(n).prop_map(SB::NthVar),
        2 => arb_wide_var(n).prop_map(SB::NthVarInv),
        1 => Just(SB::One),
        1 => Just(SB::Zero),
        8 => vec(arb_small_cube(n, 4), 0..=3).prop_map(SB::FromCubes),
    ];
    let negated = (small.clone(), 0u8..2).prop_map(|(a, f)| SB::Not(Box::new(a), f));
    let general = arb_cube_list(n, 5).prop_map(|mut v| {
        v.truncate(40);
        SB::FromCubes(v)
    });
    let leaf = prop_oneof![6 => small, 3 => negated, 3 => general];
    leaf.prop_recursive(3, 8, 2, |inner| {
        prop_oneof![
            2 => (inner.clone(), inner.clone(), 0u8..4).prop_map(|(a, b, f)| SB::And(Box::new(a), Box::new(b), f)),
            3 => (inner.clone(), inner, 0u8..4).prop_map(|(a, b, f)| SB::Or(Box::new(a), Box::new(b), f)),
        ]
    })
    .boxed()
}

/// Esop description over n (11..=32) variables
pub fn arb_xb_wide(n: usize) -> BoxedStrategy<XB> {
    let leaf = prop_oneof![
        2 => arb_wide_var(n).prop_map(XB::NthVar),
        2 => arb_wide_var(n).prop_map(XB::NthVarInv),
        1 => Just(XB::One),
        1 => Just(XB::Zero),
        6 => vec(arb_small_cube(n, 5), 0..=5).prop_map(XB::FromCubes),
        3 => arb_cube_list(n, 5).prop_map(|mut v| {
            v.truncate(40);
            XB::FromCubes(v)
        }),
        // over all 32 variables from_cubes also accepts contradictory cubes (x & !x): legal there only
        2 => vec(arb_cb(std::cmp::min(n, 32)), 0..=4).prop_map(move |v| {
            if n == 32 { XB::FromCubes(v) } else { XB::FromCubes(v.into_iter().filter(|c| c.model() != CubeM::Zero).collect()) }
        }),
    ];
    leaf.prop_recursive(3, 10, 2, |inner| {
        prop_oneof![
            3 => (inner.clone(), inner.clone(), 0u8..4).prop_map(|(a, b, f)| XB::Xor(Box::new(a), Box::new(b), f)),
            1 => (inner, 0u8..2).prop_map(|(a, f)| XB::Not(Box::new(a), f)),
        ]
    })
    .boxed()
}

/// assignments (masked to n variables) at which a wide form is compared with its description:
/// the generated ones, the constant and alternating ones, and for each given cube one satisfying
/// assignment and one near miss (one literal falsified)
pub fn wide_assignments(n: usize, generated: &[u32], cubes: &[CubeM]) -> Vec<u64> {
    let mask: u64 = if n >= 32 { 0xffff_ffff } else { (1u64 << n) - 1 };
    let mut out: Vec<u64> = generated.iter().map(|m| *m as u64 & mask).collect();
    out.extend([0, mask, 0x5555_5555 & mask, 0xaaaa_aaaa & mask]);
    for (k, c) in cubes.iter().take(24).enumerate() {
        if let CubeM::Lits(l) = c {
            let fill = generated.get(k % std::cmp::max(1, generated.len())).copied().unwrap_or(0) as u64;
            let mut m = fill;
            for (v, p) in l {
                if *p {
                    m |= 1 << v;
                } else {
                    m &= !(1u64 << v);
                }
            }
            out.push(m & mask);
            if let Some((v, _)) = l.iter().nth(k % std::cmp::max(1, l.len())) {
                out.push((m ^ (1 << v)) & mask);
            }
        }
    }
    out
}

/// the same for XOR terms: an assignment making the term true and one making it false
pub fn wide_assignments_terms(n: usize, generated: &[u32], terms: &[EcubeM]) -> Vec<u64> {
    let mask: u64 = if n >= 32 { 0xffff_ffff } else { (1u64 << n) - 1 };
    let mut out: Vec<u64> = generated.iter().map(|m| *m as u64 & mask).collect();
    out.extend([0, mask, 0x5555_5555 & mask, 0xaaaa_aaaa & mask]);
    for (k, t) in terms.iter().take(24).enumerate() {
        let fill = generated.get(k % std::cmp::max(1, generated.len())).copied().unwrap_or(0) as u64 & mask;
        out.push(fill);
        if let Some(v) = t.vars.iter().nth(k % std::cmp::max(1, t.vars.len())) {
            out.push((fill ^ (1 << v)) & mask);
        }
    }
    out
}
