//! Byte-level decoders for the libFuzzer targets: bytes -> the same `Case` types the proptest
//! checks use (hand-decoded with `arbitrary::Unstructured`), so that a libFuzzer artifact can be
//! converted to an ordinary replay file and re-judged by `vcheck` in both build profiles.

use arbitrary::Unstructured;

use crate::adapter::{BinOp, Fam};
use crate::engine::Verdict;
use crate::model::{words_for, Tt};
use crate::ops::{History, Op, Step, SLOTS};
use crate::props::{c02, c03, c04, c05, c06, c07, c09, c10, c12, c14, c16};
use crate::sopx::{CB, SB};

type R<T> = arbitrary::Result<T>;

fn fam(u: &mut Unstructured) -> R<Fam> {
    Ok(if u.arbitrary::<bool>()? { Fam::Dyn } else { Fam::Static })
}

fn tt(u: &mut Unstructured, n: usize) -> R<Tt> {
    let mut w = Vec::new();
    for _ in 0..words_for(n) {
        w.push(u.arbitrary::<u64>()?);
    }
    Ok(Tt::from_words(n, w))
}

fn idx(u: &mut Unstructured, n: usize) -> R<usize> {
    if n == 0 {
        return Ok(0);
    }
    Ok(u.int_in_range(0..=(n - 1))?)
}

fn op(u: &mut Unstructured, n: usize, f: Fam) -> R<Op> {
    let size = 1usize << n;
    let tag = u.int_in_range(0u8..=49)?;
    let k_arg = |u: &mut Unstructured| -> R<usize> {
        Ok(match u.int_in_range(0u8..=5)? {
            0 => 63,
            1 => 64,
            2 => 65,
            3 => usize::MAX,
            _ => u.int_in_range(0..=(n + 2))?,
        })
    };
    let needs_var = |o: Op| -> Op { if n == 0 { Op::Clone } else { o } };
    Ok(match tag {
        0 => Op::Zero,
        1 => Op::One,
        2 => needs_var(Op::NthVar(idx(u, n)?)),
        3 => Op::Parity,
        4 => Op::Majority,
        5 => Op::Threshold(k_arg(u)?),
        6 => Op::Equals(k_arg(u)?),
        7 => Op::Symmetric(u.arbitrary::<usize>()?),
        8 => Op::Default,
        9 => Op::Random,
        10 => Op::FromBlocks(tt(u, n)?.w),
        11 => {
            let len = u.int_in_range(0usize..=(Tt::hex_width(n) + 2).min(40))?;
            let bytes = u.bytes(len.min(u.len()))?;
            Op::FromHexRaw(String::from_utf8_lossy(bytes).to_string())
        }
        12 => Op::AllFunctionsNth(u.int_in_range(0usize..=(if n >= 3 { 255 } else { (1usize << size) - 1 }))?),
        13 => {
            if f == Fam::Static && (3..=6).contains(&n) {
                Op::FromInt(u.arbitrary::<u64>()? & crate::model::mask_for(n))
            } else {
                Op::Clone
            }
        }
        14 => Op::Clone,
        15 => Op::Not(u.int_in_range(0usize..=3)?),
        16 => needs_var(Op::Flip(idx(u, n)?, u.arbitrary()?)),
        17 => needs_var(Op::Swap(idx(u, n)?, idx(u, n)?, u.arbitrary()?)),
        18 => {
            if n >= 2 {
                Op::SwapAdjacent(idx(u, n - 1)?, u.arbitrary()?)
            } else {
                Op::Clone
            }
        }
        19 => needs_var(Op::Cofactor0(idx(u, n)?)),
        20 => needs_var(Op::Cofactor1(idx(u, n)?)),
        21 => Op::SetBit(idx(u, size)?),
        22 => Op::UnsetBit(idx(u, size)?),
        23 => Op::SetValue(idx(u, size)?, u.arbitrary()?),
        24 => {
            if n <= 6 {
                Op::PCanon
            } else {
                Op::Clone
            }
        }
        25 => {
            if n <= 6 {
                Op::NCanon
            } else {
                Op::Clone
            }
        }
        26 => {
            if n <= 6 {
                Op::NpnCanon
            } else {
                Op::Clone
            }
        }
        27 => Op::Successor,
        28 => Op::HexRoundTrip,
        29 => Op::ConvRoundTrip,
        30 => needs_var(Op::CofactorRoundTrip(idx(u, n)?)),
        31 => needs_var(Op::DoubleFlip(idx(u, n)?)),
        32 => Op::XorTwice,
        33..=38 => {
            let o = match tag % 3 {
                0 => BinOp::And,
                1 => BinOp::Or,
                _ => BinOp::Xor,
            };
            Op::Bin(o, u.int_in_range(0usize..=7)?)
        }
        39 => needs_var(Op::FromCofactors(idx(u, n)?)),
        40 => Op::Cmp,
        41 => Op::Eq,
        42 => Op::Bdd(u.int_in_range(0usize..=2)?),
        43 => Op::ToHex,
        44 => Op::Display,
        45 => needs_var(Op::TopDecomp(idx(u, n)?)),
        46 => Op::Rel,
        48 => Op::ConvertTo(u.int_in_range(0usize..=13)?),
        49 => Op::Format(u.int_in_range(0usize..=9)?),
        _ => Op::Binary,
    })
}

/// C02 history case
pub fn decode_hist(data: &[u8]) -> Option<c02::Case> {
    let mut u = Unstructured::new(data);
    let r: R<c02::Case> = (|| {
        let f = fam(&mut u)?;
        let n = u.int_in_range(0usize..=9)?;
        let mut init = Vec::new();
        for _ in 0..SLOTS {
            init.push(tt(&mut u, n)?);
        }
        let mut steps = Vec::new();
        while !u.is_empty() && steps.len() < 64 {
            let o = op(&mut u, n, f)?;
            let a = u.int_in_range(0usize..=SLOTS - 1)?;
            let b = u.int_in_range(0usize..=SLOTS - 1)?;
            let dst = u.int_in_range(0usize..=SLOTS - 1)?;
            steps.push(Step { op: o, a, b, dst });
        }
        Ok(c02::Case { fam: f, h: History { n, init, steps } })
    })();
    r.ok()
}

/// C09 parse case
pub fn decode_hex(data: &[u8]) -> Option<c09::ParseCase> {
    if data.is_empty() {
        return None;
    }
    let f = if data[0] & 0x80 != 0 { Fam::Dyn } else { Fam::Static };
    let n = (data[0] & 0x7f) as usize % 13;
    let s = String::from_utf8_lossy(&data[1..]).to_string();
    Some(c09::ParseCase { fam: f, n, s })
}

fn cb(u: &mut Unstructured, nv: usize, depth: u32) -> R<CB> {
    let var = |u: &mut Unstructured| -> R<usize> { idx(u, nv.max(1)) };
    let vmask: u32 = if nv >= 32 { !0 } else { (1u32 << nv) - 1 };
    let tag = u.int_in_range(0u8..=(if depth == 0 { 6 } else { 8 }))?;
    Ok(match tag {
        0 => CB::One,
        1 => CB::Zero,
        2 if nv > 0 => CB::NthVar(var(u)?),
        3 if nv > 0 => CB::NthVarInv(var(u)?),
        4 if nv > 0 => {
            let (np, nn) = (u.int_in_range(0usize..=4)?, u.int_in_range(0usize..=4)?);
            let mut p = Vec::new();
            let mut ng = Vec::new();
            for _ in 0..np {
                p.push(var(u)?);
            }
            for _ in 0..nn {
                ng.push(var(u)?);
            }
            CB::FromVars(p, ng)
        }
        5 => CB::FromMask(u.arbitrary::<u32>()? & vmask, u.arbitrary::<u32>()? & vmask),
        6 => {
            let n = u.int_in_range(0usize..=nv.min(31))?;
            CB::Minterm(n, (u.arbitrary::<u32>()? as usize) & ((1usize << n) - 1))
        }
        7 | 8 => CB::And(Box::new(cb(u, nv, depth - 1)?), Box::new(cb(u, nv, depth - 1)?), u.int_in_range(0u8..=3)?),
        _ => CB::One,
    })
}

/// C12 pair case
pub fn decode_cubes(data: &[u8]) -> Option<c12::Case> {
    let mut u = Unstructured::new(data);
    let r: R<c12::Case> = (|| {
        let nv = u.int_in_range(0usize..=32)?;
        let a = cb(&mut u, nv, 3)?;
        let b = cb(&mut u, nv, 3)?;
        let mut ms = Vec::new();
        while !u.is_empty() && ms.len() < 8 {
            ms.push(u.arbitrary::<u32>()?);
        }
        Ok(c12::Case { nv, a, b, ms })
    })();
    r.ok()
}

fn sb(u: &mut Unstructured, n: usize, depth: u32) -> R<SB> {
    let tag = u.int_in_range(0u8..=(if depth == 0 { 4 } else { 9 }))?;
    Ok(match tag {
        0 => SB::Zero,
        1 => SB::One,
        2 if n > 0 => {
            if u.arbitrary()? {
                SB::NthVar(idx(u, n)?)
            } else {
                SB::NthVarInv(idx(u, n)?)
            }
        }
        3 | 4 => {
            let k = u.int_in_range(0usize..=6)?;
            let mut v = Vec::new();
            for _ in 0..k {
                let c = cb(u, n, 1)?;
                if c.model() != crate::sopx::CubeM::Zero {
                    v.push(c);
                }
            }
            SB::FromCubes(v)
        }
        5 | 6 => SB::And(Box::new(sb(u, n, depth - 1)?), Box::new(sb(u, n, depth - 1)?), u.int_in_range(0u8..=3)?),
        7 | 8 => SB::Or(Box::new(sb(u, n, depth - 1)?), Box::new(sb(u, n, depth - 1)?), u.int_in_range(0u8..=3)?),
        9 => SB::Not(Box::new(sb(u, n, depth - 1)?), u.int_in_range(0u8..=1)?),
        _ => SB::One,
    })
}

/// C14 expression case (also printed and re-read for C16)
pub fn decode_sop(data: &[u8]) -> Option<c14::Case> {
    let mut u = Unstructured::new(data);
    let r: R<c14::Case> = (|| {
        let n = u.int_in_range(0usize..=8)?;
        let e = sb(&mut u, n, 4)?;
        Ok(c14::Case { n, e })
    })();
    r.ok()
}

/// a table described by a small expression: raw words, repeated word, literals, and / or / xor /
/// not / mux of sub-tables, or a table that copies one half into the other (shared cofactors)
fn tt_expr(u: &mut Unstructured, n: usize, depth: usize) -> R<Tt> {
    let tag = if depth == 0 { u.int_in_range(0u8..=3)? } else { u.int_in_range(0u8..=9)? };
    Ok(match tag {
        0 => tt(u, n)?,
        1 => {
            let w = u.arbitrary::<u64>()?;
            Tt::from_words(n, vec![w; words_for(n)])
        }
        2 => {
            if n == 0 {
                Tt::from_fn(0, |_| true)
            } else {
                let i = idx(u, n)?;
                Tt::from_fn(n, move |m| (m >> i) & 1 == 1)
            }
        }
        3 => {
            let b: bool = u.arbitrary()?;
            Tt::from_fn(n, move |_| b)
        }
        4 => tt_expr(u, n, depth - 1)?.and(&tt_expr(u, n, depth - 1)?),
        5 => tt_expr(u, n, depth - 1)?.or(&tt_expr(u, n, depth - 1)?),
        6 => tt_expr(u, n, depth - 1)?.xor(&tt_expr(u, n, depth - 1)?),
        7 => tt_expr(u, n, depth - 1)?.not(),
        8 => {
            // mux on a variable: s ? a : b
            if n == 0 {
                tt(u, n)?
            } else {
                let i = idx(u, n)?;
                let a = tt_expr(u, n, depth - 1)?;
                let b = tt_expr(u, n, depth - 1)?;
                Tt::from_fn(n, move |m| if (m >> i) & 1 == 1 { a.get(m) } else { b.get(m) })
            }
        }
        _ => {
            // make the function independent of, or complementary in, one variable
            if n == 0 {
                tt(u, n)?
            } else {
                let i = idx(u, n)?;
                let inv: bool = u.arbitrary()?;
                let a = tt_expr(u, n, depth - 1)?;
                Tt::from_fn(n, move |m| a.get(m & !(1 << i)) ^ (inv && (m >> i) & 1 == 1))
            }
        }
    })
}

fn group(u: &mut Unstructured) -> R<crate::orbit::Group> {
    Ok(match u.int_in_range(0u8..=2)? {
        0 => crate::orbit::Group::P,
        1 => crate::orbit::Group::N,
        _ => crate::orbit::Group::Npn,
    })
}

pub fn decode_transforms(data: &[u8]) -> Option<c03::Case> {
    let mut u = Unstructured::new(data);
    let r: R<c03::Case> = (|| {
        let f = fam(&mut u)?;
        let n = u.int_in_range(1usize..=9)?;
        let k = u.int_in_range(1usize..=4)?;
        let mut ix = Vec::new();
        for _ in 0..k {
            ix.push((idx(&mut u, n)?, idx(&mut u, n)?));
        }
        Ok(c03::Case { fam: f, f: tt_expr(&mut u, n, 2)?, c0: tt_expr(&mut u, n, 1)?, c1: tt_expr(&mut u, n, 1)?, idx: ix })
    })();
    r.ok()
}

pub fn decode_canon(data: &[u8]) -> Option<c04::Case> {
    let mut u = Unstructured::new(data);
    let r: R<c04::Case> = (|| {
        let f = fam(&mut u)?;
        let g = group(&mut u)?;
        let n = u.int_in_range(0usize..=6)?;
        Ok(c04::Case { fam: f, group: g, f: tt_expr(&mut u, n, 2)? })
    })();
    r.ok()
}

pub fn decode_decomp(data: &[u8]) -> Option<c06::Case> {
    let mut u = Unstructured::new(data);
    let r: R<c06::Case> = (|| {
        let f = fam(&mut u)?;
        let n = u.int_in_range(1usize..=9)?;
        let planted = idx(&mut u, n)?;
        Ok(c06::Case { fam: f, f: tt_expr(&mut u, n, 3)?, planted })
    })();
    r.ok()
}

pub fn decode_bdd(data: &[u8]) -> Option<c07::Case> {
    let mut u = Unstructured::new(data);
    let r: R<c07::Case> = (|| {
        let f = fam(&mut u)?;
        let n = u.int_in_range(0usize..=9)?;
        let k = u.int_in_range(0usize..=4)?;
        let rot = u.int_in_range(0usize..=3)?;
        let dup = u.int_in_range(0usize..=3)?;
        let neg: u8 = u.arbitrary()?;
        let mut fs = Vec::new();
        for _ in 0..k {
            fs.push(tt_expr(&mut u, n, 3)?);
        }
        Ok(c07::Case { fam: f, n, fs, rot, dup, neg })
    })();
    r.ok()
}

/// (property, subcheck, case JSON, verdict) for a target name and input bytes
pub fn judge(target: &str, data: &[u8]) -> Option<(&'static str, &'static str, serde_json::Value, Verdict)> {
    match target {
        "hist" => decode_hist(data).map(|c| ("C02", "histories", serde_json::to_value(&c).unwrap(), c02::run(&c))),
        "histdiff" => decode_hist(data).map(|c| {
            // the same byte decoder, judged by the Lut-vs-LutN differential of C10
            let mut h = c.h.clone();
            for st in h.steps.iter_mut() {
                if matches!(st.op, Op::Random | Op::Default | Op::FromInt(_)) {
                    st.op = Op::Zero;
                }
            }
            let d = c10::Case { h };
            ("C10", "diff", serde_json::to_value(&d).unwrap(), c10::run(&d))
        }),
        "hex" => decode_hex(data).map(|c| ("C09", "parse", serde_json::to_value(&c).unwrap(), c09::run_parse(&c))),
        "cubeops" => decode_cubes(data).map(|c| ("C12", "pairs", serde_json::to_value(&c).unwrap(), c12::run(&c))),
        "sopexpr" => decode_sop(data).map(|c| ("C14", "expr", serde_json::to_value(&c).unwrap(), c14::run(&c))),
        "sopdisplay" => decode_sop(data).map(|c| {
            let d = c16::Case { n: c.n, a: c16::Obj::Sop(c.e.clone()), b: c16::Obj::Sop(SB::Zero), ms: vec![0x1234_5678, 0xffff_0000, 0x0f0f_a5a5, 0x8000_0001] };
            ("C16", "display", serde_json::to_value(&d).unwrap(), c16::run(&d))
        }),
        "transforms" => decode_transforms(data).map(|c| ("C03", "transforms", serde_json::to_value(&c).unwrap(), c03::run(&c))),
        "canon" => decode_canon(data).map(|c| ("C04", "orbit", serde_json::to_value(&c).unwrap(), c04::run_orbit(&c))),
        "witness" => decode_canon(data).map(|c| {
            let d = c05::Case { fam: c.fam, group: c.group, f: c.f.clone() };
            ("C05", "witness", serde_json::to_value(&d).unwrap(), c05::run(&d))
        }),
        "decomp" => decode_decomp(data).map(|c| ("C06", "classify", serde_json::to_value(&c).unwrap(), c06::run(&c))),
        "bdd" => decode_bdd(data).map(|c| ("C07", "count", serde_json::to_value(&c).unwrap(), c07::run(&c))),
        _ => None,
    }
}
