//! Helpers shared by the property modules: loading a model table into the library,
//! observing a library value through the public API, labels.

use crate::adapter::{Fam, Tab, T};
use crate::engine::guard;
use crate::model::{mask_for, words_for, Tt};

/// Load a model table into the library (from_blocks on well-formed blocks), re-observe it with
/// value(); if the loader misbehaves fall back to zero()+set_bit. Err = could not be loaded at
/// all (the case is then skipped by the caller: a broken loader is another property's business).
pub fn load(fam: Fam, t: &Tt) -> Result<T, String> {
    let f = fam.get();
    if let Ok(x) = guard(|| f.from_blocks(t.n, &t.w)) {
        if same_fn(x.as_ref(), t).is_ok() {
            return Ok(x);
        }
    }
    let r = guard(|| {
        let mut x = f.zero(t.n);
        for m in 0..t.size() {
            if t.get(m) {
                x.set_bit(m);
            }
        }
        x
    });
    match r {
        Ok(x) if same_fn(x.as_ref(), t).is_ok() => Ok(x),
        Ok(_) => Err("loaded table does not read back".into()),
        Err(p) => Err(format!("loader panicked: {}", p)),
    }
}

/// The library value denotes exactly the model function: same n, same value on every assignment
/// (observed only through num_vars() and value()).
pub fn same_fn(x: &dyn Tab, t: &Tt) -> Result<(), String> {
    let r = guard(|| {
        if x.n() != t.n {
            return Err(format!("num_vars {} instead of {}", x.n(), t.n));
        }
        for m in 0..t.size() {
            if x.value(m) != t.get(m) {
                return Err(format!(
                    "value({}) = {} but the definition gives {} (expected table {})",
                    m,
                    x.value(m),
                    t.get(m),
                    t.short()
                ));
            }
        }
        Ok(())
    });
    match r {
        Ok(v) => v,
        Err(p) => Err(format!("value() panicked: {}", p)),
    }
}

/// Read a library value back into the model through value().
pub fn to_model(x: &dyn Tab) -> Tt {
    let n = x.n();
    Tt::from_fn(n, |m| x.value(m))
}

/// The representation invariant of C02: exactly max(1, 2^n/64) blocks and no bit at a position
/// >= 2^n.
pub fn well_formed(x: &dyn Tab) -> Result<(), String> {
    let n = x.n();
    let b = x.blocks();
    if b.len() != words_for(n) {
        return Err(format!(
            "blocks().len() = {} instead of {} for n = {}",
            b.len(),
            words_for(n),
            n
        ));
    }
    if b[0] & !mask_for(n) != 0 {
        return Err(format!(
            "blocks()[0] = {:#x} has a bit at a position >= 2^{}",
            b[0], n
        ));
    }
    Ok(())
}

pub fn n_label(n: usize) -> String {
    match n {
        0..=5 => "n<6".to_string(),
        6 => "n=6".to_string(),
        _ => "n>=7".to_string(),
    }
}

pub fn base_labels(fam: Fam, t: &Tt) -> Vec<String> {
    vec![
        format!("fam:{}", fam.label()),
        format!("size:{}", n_label(t.n)),
        format!("n:{}", t.n),
        format!("class:{}", t.class()),
    ]
}
