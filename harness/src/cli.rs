//! Command line of the check binaries.
//!
//!   vcheck run <Cxx> --tier quick|thorough --seed N --profile NAME --out FILE
//!                    [--known FILE] [--replay-dir DIR] [--jobs N] [--only SUB] [--scale X]
//!   vcheck replay <file> [--profile NAME]
//!   vcheck list
//!
//! exit 0: held on everything explored; 1: violation (a line `VIOLATION property=<id>
//! replay=<path>` is printed); 2: inconclusive (usage, aborted generator, I/O).

use std::path::PathBuf;

use serde_json::Value;

use crate::engine::*;

fn arg_val(args: &[String], name: &str) -> Option<String> {
    args.iter()
        .position(|a| a == name)
        .and_then(|i| args.get(i + 1).cloned())
}

pub fn main_with(props: Vec<PropDef>) -> i32 {
    install_panic_hook();
    let args: Vec<String> = std::env::args().collect();
    if args.len() < 2 {
        eprintln!("usage: vcheck run|replay|list|serve ...");
        return 2;
    }
    let profile = arg_val(&args, "--profile").unwrap_or_else(|| {
        if cfg!(debug_assertions) {
            "checked".to_string()
        } else {
            "fast".to_string()
        }
    });
    match args[1].as_str() {
        "list" => {
            for p in &props {
                let subs: Vec<&str> = p.subs.iter().map(|s| s.name()).collect();
                println!("{} {}", p.id, subs.join(","));
            }
            0
        }
        "serve" => crate::props::serve(),
        "run" => {
            let id = match args.get(2) {
                Some(x) => x.clone(),
                None => {
                    eprintln!("missing property id");
                    return 2;
                }
            };
            let def = match props.iter().find(|p| p.id == id) {
                Some(d) => d,
                None => {
                    eprintln!("unknown property {}", id);
                    return 2;
                }
            };
            let tier = match arg_val(&args, "--tier").as_deref() {
                Some("thorough") => Tier::Thorough,
                _ => Tier::Quick,
            };
            let seed: u64 = arg_val(&args, "--seed")
                .and_then(|s| s.parse().ok())
                .unwrap_or(1);
            let jobs: usize = arg_val(&args, "--jobs")
                .and_then(|s| s.parse().ok())
                .unwrap_or(8);
            let scale: f64 = arg_val(&args, "--scale")
                .and_then(|s| s.parse().ok())
                .unwrap_or(1.0);
            let known = arg_val(&args, "--known")
                .map(|p| Known::load(std::path::Path::new(&p)))
                .unwrap_or_default();
            let replay_dir = PathBuf::from(
                arg_val(&args, "--replay-dir").unwrap_or_else(|| "/verif/replays".to_string()),
            );
            let only = arg_val(&args, "--only");
            if let Some(p) = arg_val(&args, "--peer") {
                std::env::set_var("VCHECK_PEER", p);
            }
            rayon::ThreadPoolBuilder::new()
                .num_threads(jobs)
                .stack_size(64 << 20)
                .build_global()
                .ok();
            let ctx = Ctx {
                prop: id.clone(),
                tier,
                seed,
                profile: profile.clone(),
                jobs,
                known,
                replay_dir,
                scale,
            };
            let out = run_property(def, &ctx, only.as_deref());
            if let Some(path) = arg_val(&args, "--out") {
                if let Err(e) = std::fs::write(&path, serde_json::to_string_pretty(&out.evidence).unwrap()) {
                    eprintln!("cannot write {}: {}", path, e);
                    return 2;
                }
            }
            for l in &out.known_lines {
                println!("{}", l);
            }
            for v in &out.violations {
                println!("DETAIL property={} profile={} subcheck={} sig={} :: {}", id, profile, v.sub, v.sig, v.msg);
                println!("VIOLATION property={} replay={}", id, v.replay);
            }
            if !out.violations.is_empty() {
                return 1;
            }
            if !out.aborted.is_empty() {
                for a in &out.aborted {
                    println!("INCONCLUSIVE property={} {}", id, a);
                }
                return 2;
            }
            let cov = &out.evidence["coverage"];
            println!(
                "OK property={} profile={} tier={} seed={} evaluations={} distinct_nontrivial={} wall_s={:.1}",
                id,
                profile,
                tier.name(),
                seed,
                cov["evaluations"],
                cov["distinct_nontrivial"],
                out.evidence["wall_s"].as_f64().unwrap_or(0.0)
            );
            0
        }
        "replay" => {
            let path = match args.get(2) {
                Some(p) => p.clone(),
                None => {
                    eprintln!("missing replay file");
                    return 2;
                }
            };
            let doc: Value = match std::fs::read_to_string(&path)
                .map_err(|e| e.to_string())
                .and_then(|s| serde_json::from_str(&s).map_err(|e| e.to_string()))
            {
                Ok(v) => v,
                Err(e) => {
                    eprintln!("cannot read replay file {}: {}", path, e);
                    return 2;
                }
            };
            let id = doc["property"].as_str().unwrap_or("").to_string();
            let subname = doc["subcheck"].as_str().unwrap_or("").to_string();
            let def = match props.iter().find(|p| p.id == id) {
                Some(d) => d,
                None => {
                    // not ours (e.g. C18 replay given to vcheck): let the driver try the other binary
                    eprintln!("property {} is not served by this binary", id);
                    return 3;
                }
            };
            let sub = match def.subs.iter().find(|s| s.name() == subname) {
                Some(s) => s,
                None => {
                    eprintln!("unknown subcheck {}", subname);
                    return 2;
                }
            };
            if let Some(p) = arg_val(&args, "--peer") {
                std::env::set_var("VCHECK_PEER", p);
            }
            match sub.replay(&doc["case"]) {
                Err(e) => {
                    eprintln!("{}", e);
                    2
                }
                Ok(Ok(_)) => {
                    println!("REPLAY-PASS property={} profile={} subcheck={}", id, profile, subname);
                    0
                }
                Ok(Err(f)) => {
                    println!("DETAIL property={} profile={} subcheck={} sig={} :: {}", id, profile, subname, f.sig, f.msg);
                    println!("VIOLATION property={} replay={}", id, path);
                    1
                }
            }
        }
        _ => {
            eprintln!("unknown command {}", args[1]);
            2
        }
    }
}
