//! Command line of the check binaries.
//!
//!   vcheck run <Cxx> --tier quick|thorough --seed N --profile NAME --out FILE
//!                    [--known FILE] [--replay-dir DIR] [--jobs N] [--only SUB] [--scale X]
//!   vcheck replay <file> [--profile NAME]
//!   vcheck list
//!
//! exit 0: held on everything explored; 1: violation (a line `VIOLATION property=<id>
//! replay=<path>` is printed); 2: inconclusive (usage, aborted generator, I/O).

use std::path::PathBuf;

use serde_json::Value;

use crate::engine::*;

fn arg_val(args: &[String], name: &str) -> Option<String> {
    args.iter()
        .position(|a| a == name)
        .and_then(|i| args.get(i + 1).cloned())
}

pub fn main_with(props: Vec<PropDef>) -> i32 {
    install_panic_hook();
    // a panic in the harness itself (not in a guarded library call) is a harness failure:
    // inconclusive, never a verdict
    match std::panic::catch_unwind(std::panic::AssertUnwindSafe(|| main_inner(props))) {
        Ok(c) => c,
        Err(_) => {
            println!("INCONCLUSIVE harness panic: {}", last_panic());
            2
        }
    }
}

fn main_inner(props: Vec<PropDef>) -> i32 {
    let args: Vec<String> = std::env::args().collect();
    if args.len() < 2 {
        eprintln!("usage: vcheck run|replay|list|serve ...");
        return 2;
    }
    let profile = arg_val(&args, "--profile").unwrap_or_else(|| {
        if cfg!(debug_assertions) {
            "checked".to_string()
        } else {
            "fast".to_string()
        }
    });
    match args[1].as_str() {
        "list" => {
            for p in &props {
                let subs: Vec<&str> = p.subs.iter().map(|s| s.name()).collect();
                println!("{} {}", p.id, subs.join(","));
            }
            0
        }
        "serve" => crate::props::serve(),
        "decode" => {
            // vcheck decode <fuzz target> <input file> [--out replay.json]: decode a libFuzzer
            // input into an ordinary replay file and judge it here
            let (target, file) = match (args.get(2), args.get(3)) {
                (Some(t), Some(f)) => (t.clone(), f.clone()),
                _ => {
                    eprintln!("usage: vcheck decode <target> <file> [--out replay.json]");
                    return 2;
                }
            };
            let data = match std::fs::read(&file) {
                Ok(d) => d,
                Err(e) => {
                    eprintln!("cannot read {}: {}", file, e);
                    return 2;
                }
            };
            match crate::fuzzdec::judge(&target, &data) {
                None => {
                    println!("UNDECODABLE target={} file={}", target, file);
                    0
                }
                Some((prop, sub, case, verdict)) => {
                    let (sig, msg) = match &verdict {
                        Ok(_) => (String::new(), String::new()),
                        Err(f) => (f.sig.clone(), f.msg.clone()),
                    };
                    if let Some(out) = arg_val(&args, "--out") {
                        let doc = serde_json::json!({"property": prop, "subcheck": sub, "profile": profile, "tier": "thorough", "seed": 0,
                            "signature": sig, "message": msg, "case": case, "origin": format!("libFuzzer target {} input {}", target, file)});
                        let _ = std::fs::write(&out, serde_json::to_string_pretty(&doc).unwrap());
                    }
                    match verdict {
                        Ok(_) => {
                            println!("DECODE-PASS property={} target={}", prop, target);
                            0
                        }
                        Err(f) => {
                            println!("DETAIL property={} profile={} subcheck={} sig={} :: {}", prop, profile, sub, f.sig, f.msg);
                            1
                        }
                    }
                }
            }
        }
        "run" => {
            let id = match args.get(2) {
                Some(x) => x.clone(),
                None => {
                    eprintln!("missing property id");
                    return 2;
                }
            };
            let def = match props.iter().find(|p| p.id == id) {
                Some(d) => d,
                None => {
                    eprintln!("unknown property {}", id);
                    return 2;
                }
            };
            let tier = match arg_val(&args, "--tier").as_deref() {
                Some("thorough") => Tier::Thorough,
                _ => Tier::Quick,
            };
            let seed: u64 = arg_val(&args, "--seed")
                .and_then(|s| s.parse().ok())
                .unwrap_or(1);
            let jobs: usize = arg_val(&args, "--jobs")
                .and_then(|s| s.parse().ok())
                .unwrap_or(8);
            let scale: f64 = arg_val(&args, "--scale")
                .and_then(|s| s.parse().ok())
                .unwrap_or(1.0);
            let known = arg_val(&args, "--known")
                .map(|p| Known::load(std::path::Path::new(&p)))
                .unwrap_or_default();
            let replay_dir = PathBuf::from(
                arg_val(&args, "--replay-dir").unwrap_or_else(|| "/verif/replays".to_string()),
            );
            let only = arg_val(&args, "--only");
            if let Some(p) = arg_val(&args, "--peer") {
                std::env::set_var("VCHECK_PEER", p);
            }
            rayon::ThreadPoolBuilder::new()
                .num_threads(jobs)
                .stack_size(64 << 20)
                .build_global()
                .ok();
            let ctx = Ctx {
                prop: id.clone(),
                tier,
                seed,
                profile: profile.clone(),
                jobs,
                known,
                replay_dir,
                scale,
            };
            // seconds-long replay tier: saved shrunk inputs of earlier findings (regress/<id>-*.json)
            let mut regress_ok = 0usize;
            let mut regress_fail: Vec<(String, Fail)> = Vec::new();
            if let Some(dir) = arg_val(&args, "--regress-dir") {
                let mut files: Vec<_> = std::fs::read_dir(&dir).map(|d| d.filter_map(|e| e.ok()).map(|e| e.path()).collect()).unwrap_or_else(|_| Vec::new());
                files.sort();
                for path in files {
                    let name = path.file_name().and_then(|n| n.to_str()).unwrap_or("").to_string();
                    if !name.starts_with(&format!("{}-", id)) || !name.ends_with(".json") {
                        continue;
                    }
                    let doc: Value = match std::fs::read_to_string(&path).ok().and_then(|s| serde_json::from_str(&s).ok()) {
                        Some(v) => v,
                        None => continue,
                    };
                    let subname = doc["subcheck"].as_str().unwrap_or("");
                    if let Some(sub) = def.subs.iter().find(|s| s.name() == subname) {
                        match sub.replay(&doc["case"]) {
                            Ok(Ok(_)) => regress_ok += 1,
                            Ok(Err(f)) => {
                                if ctx.known.matches(&id, subname, &f.sig).is_none() {
                                    regress_fail.push((path.to_string_lossy().to_string(), f));
                                }
                            }
                            Err(_) => {}
                        }
                    }
                }
            }
            for (path, f) in &regress_fail {
                println!("DETAIL property={} profile={} regression-replay sig={} :: {}", id, profile, f.sig, f.msg);
                println!("VIOLATION property={} replay={}", id, path);
            }
            let mut out = run_property(def, &ctx, only.as_deref());
            out.evidence["coverage"]["regression_replays"] = serde_json::json!({"passed": regress_ok, "failed": regress_fail.len()});
            if !regress_fail.is_empty() {
                out.evidence["violations"] = serde_json::json!(out.violations.len() + regress_fail.len());
            }
            if let Some(path) = arg_val(&args, "--out") {
                if let Err(e) = std::fs::write(&path, serde_json::to_string_pretty(&out.evidence).unwrap()) {
                    eprintln!("cannot write {}: {}", path, e);
                    return 2;
                }
            }
            for l in &out.known_lines {
                println!("{}", l);
            }
            let (inconclusive, real): (Vec<_>, Vec<_>) = out.violations.iter().partition(|v| v.sig.starts_with("inconclusive:"));
            for v in &inconclusive {
                println!("INCONCLUSIVE property={} profile={} subcheck={} :: {}", id, profile, v.sub, v.msg);
            }
            if real.is_empty() && !inconclusive.is_empty() {
                return 2;
            }
            for v in &real {
                println!("DETAIL property={} profile={} subcheck={} sig={} :: {}", id, profile, v.sub, v.sig, v.msg);
                println!("VIOLATION property={} replay={}", id, v.replay);
            }
            if !real.is_empty() || !regress_fail.is_empty() {
                return 1;
            }
            if !out.aborted.is_empty() {
                for a in &out.aborted {
                    println!("INCONCLUSIVE property={} {}", id, a);
                }
                return 2;
            }
            let cov = &out.evidence["coverage"];
            println!(
                "OK property={} profile={} tier={} seed={} evaluations={} distinct_nontrivial={} wall_s={:.1}",
                id,
                profile,
                tier.name(),
                seed,
                cov["evaluations"],
                cov["distinct_nontrivial"],
                out.evidence["wall_s"].as_f64().unwrap_or(0.0)
            );
            0
        }
        "replay" => {
            let path = match args.get(2) {
                Some(p) => p.clone(),
                None => {
                    eprintln!("missing replay file");
                    return 2;
                }
            };
            let doc: Value = match std::fs::read_to_string(&path)
                .map_err(|e| e.to_string())
                .and_then(|s| serde_json::from_str(&s).map_err(|e| e.to_string()))
            {
                Ok(v) => v,
                Err(e) => {
                    eprintln!("cannot read replay file {}: {}", path, e);
                    return 2;
                }
            };
            let id = doc["property"].as_str().unwrap_or("").to_string();
            let subname = doc["subcheck"].as_str().unwrap_or("").to_string();
            let def = match props.iter().find(|p| p.id == id) {
                Some(d) => d,
                None => {
                    // not ours (e.g. C18 replay given to vcheck): let the driver try the other binary
                    eprintln!("property {} is not served by this binary", id);
                    return 3;
                }
            };
            let sub = match def.subs.iter().find(|s| s.name() == subname) {
                Some(s) => s,
                None => {
                    eprintln!("unknown subcheck {}", subname);
                    return 2;
                }
            };
            if let Some(p) = arg_val(&args, "--peer") {
                std::env::set_var("VCHECK_PEER", p);
            }
            match sub.replay(&doc["case"]) {
                Err(e) => {
                    eprintln!("{}", e);
                    2
                }
                Ok(Ok(_)) => {
                    println!("REPLAY-PASS property={} profile={} subcheck={}", id, profile, subname);
                    0
                }
                Ok(Err(f)) => {
                    println!("DETAIL property={} profile={} subcheck={} sig={} :: {}", id, profile, subname, f.sig, f.msg);
                    println!("VIOLATION property={} replay={}", id, path);
                    1
                }
            }
        }
        _ => {
            eprintln!("unknown command {}", args[1]);
            2
        }
    }
}
