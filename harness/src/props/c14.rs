//! C14 — Sop operations preserve meaning and return containment-irredundant covers.

use proptest::prelude::*;
use serde::{Deserialize, Serialize};

use volute::sop::{Cube, Sop};
use volute::Lut;

use crate::engine::*;
use crate::model::Tt;
use crate::sopx::*;
use crate::{ensure, lib};

#[derive(Clone, Debug, Hash, Serialize, Deserialize)]
pub struct Case {
    pub n: usize,
    pub e: SB,
}

fn strategy(_t: Tier) -> BoxedStrategy<Case> {
    let trees = prop_oneof![3 => 0usize..=3, 4 => 4usize..=6, 3 => 7usize..=10].prop_flat_map(|n| arb_sb(n, 4).prop_map(move |e| Case { n, e }));
    // large operands: minterm covers of dense functions of 9..=11 variables combined by & or |
    // (up to ~10^6 cube products, nearly all empty) — the size regime the small trees never reach
    let big = (9usize..=11, any::<bool>(), 0u8..4).prop_flat_map(|(n, and, form)| {
        (crate::gen::arb_tt(n), crate::gen::arb_tt(n), any::<bool>(), any::<bool>()).prop_map(move |(a, b, va, vb)| {
            let (x, y) = (Box::new(SB::FromLut(a, va)), Box::new(SB::FromLut(b, vb)));
            Case { n, e: if and { SB::And(x, y, form) } else { SB::Or(x, y, form) } }
        })
    });
    prop_oneof![400 => trees, 1 => big].boxed()
}

#[derive(Default)]
struct Info {
    ops: usize,
    redundant_operand: bool,
    skipped: usize,
    nonconst_result: bool,
}

fn model_of(s: &Sop, n: usize) -> Tt {
    let ms: Vec<CubeM> = s.cubes().iter().map(CubeM::of).collect();
    tabulate(n, |m| ms.iter().any(|c| c.value(m)))
}

/// structural guarantees of an operation result
fn check_structure(what: &str, r: &Sop, n: usize, f: &Tt) -> Result<(), Fail> {
    let ms: Vec<CubeM> = r.cubes().iter().map(CubeM::of).collect();
    // every cube tabulated once over the n variables (semantic containment = bitset inclusion)
    let tabs: Vec<Tt> = ms.iter().map(|c| tabulate(n, |m| c.value(m))).collect();
    for (i, c) in ms.iter().enumerate() {
        if *c == CubeM::Zero || r.cubes()[i].is_zero() {
            return Err(Fail { sig: "result:zero-cube".into(), msg: format!("{}: the result contains a contradictory cube ({})", what, show(r)) });
        }
        if c.max_var().map(|v| v >= n).unwrap_or(false) {
            return Err(Fail { sig: "result:var-range".into(), msg: format!("{}: the result contains the cube {} with a variable >= {}", what, c.show(), n) });
        }
        for (j, d) in ms.iter().enumerate() {
            if i == j {
                continue;
            }
            if c == d {
                return Err(Fail { sig: "result:duplicate".into(), msg: format!("{}: the result contains the cube {} twice ({})", what, c.show(), show(r)) });
            }
            // semantic containment, decided on all assignments of the n variables
            let implies = tabs[i].w.iter().zip(tabs[j].w.iter()).all(|(a, b)| a & !b == 0);
            if implies {
                return Err(Fail { sig: "result:absorbed-cube".into(), msg: format!("{}: the result keeps the cube {} although it implies the cube {} ({})", what, c.show(), d.show(), show(r)) });
            }
        }
    }
    if r.is_zero() != f.is_zero() {
        return Err(Fail { sig: "result:is_zero".into(), msg: format!("{}: is_zero() = {} but the result denotes {} ({})", what, r.is_zero(), f.short(), show(r)) });
    }
    if r.is_one() && !f.is_one() {
        return Err(Fail { sig: "result:is_one".into(), msg: format!("{}: is_one() holds but the result denotes {}", what, f.short()) });
    }
    Ok(())
}

fn show(s: &Sop) -> String {
    let v: Vec<String> = s.cubes().iter().map(|c| CubeM::of(c).show()).collect();
    if v.is_empty() {
        "0".into()
    } else {
        v.join(" | ")
    }
}

fn has_redundancy(s: &Sop, n: usize) -> bool {
    let ms: Vec<CubeM> = s.cubes().iter().map(CubeM::of).collect();
    for i in 0..ms.len() {
        for j in 0..ms.len() {
            if i != j && (ms[i] == ms[j] || ms[i].implies(&ms[j]) || (n <= 10 && ms[i].intersects(&ms[j]))) {
                return true;
            }
        }
    }
    false
}

/// evaluate a description bottom-up, checking every operation result
fn eval(e: &SB, n: usize, info: &mut Info) -> Result<(Sop, Tt), Fail> {
    let g = |what: &str, r: Result<Sop, String>| -> Result<Sop, Fail> {
        r.map_err(|p| Fail { sig: format!("panic:{}", what), msg: format!("{} panicked on valid arguments: {}", what, p) })
    };
    match e {
        SB::Zero => Ok((g("Sop::zero", guard(|| Sop::zero(n)))?, Tt::zero(n))),
        SB::One => Ok((g("Sop::one", guard(|| Sop::one(n)))?, Tt::one(n))),
        SB::NthVar(v) => Ok((g("Sop::nth_var", guard(|| Sop::nth_var(n, *v)))?, tabulate(n, |m| (m >> v) & 1 != 0))),
        SB::NthVarInv(v) => Ok((g("Sop::nth_var_inv", guard(|| Sop::nth_var_inv(n, *v)))?, tabulate(n, |m| (m >> v) & 1 == 0))),
        SB::FromCubes(cs) => {
            let ms: Vec<CubeM> = cs.iter().map(|c| c.model()).collect();
            let s = g("Sop::from_cubes", guard(|| Sop::from_cubes(n, cs.iter().map(|c| c.build()).collect())))?;
            Ok((s, tabulate(n, |m| ms.iter().any(|c| c.value(m)))))
        }
        SB::FromLut(t, byval) => {
            let l = to_lut(t);
            let s = g("Sop::from(Lut)", guard(|| if *byval { Sop::from(l.clone()) } else { Sop::from(&l) }))?;
            // minterm cover: the minterms of the on-set, each once
            let got: Vec<CubeM> = s.cubes().iter().map(CubeM::of).collect();
            let want: Vec<CubeM> = (0..t.size()).filter(|m| t.get(*m)).map(|m| CB::Minterm(n, m).model()).collect();
            let (mut a, mut b) = (got.clone(), want.clone());
            a.sort();
            b.sort();
            if a != b {
                return Err(Fail { sig: "from_lut:not-minterm-cover".into(), msg: format!("Sop::from({}) = {} is not the minterm cover of the on-set", t.short(), show(&s)) });
            }
            let back = lut_model(&Lut::from(&s));
            if back != *t {
                return Err(Fail { sig: "from_lut:roundtrip".into(), msg: format!("Lut::from(Sop::from({})) = {}", t.short(), back.short()) });
            }
            Ok((s, t.clone()))
        }
        SB::And(a, b, form) | SB::Or(a, b, form) => {
            let is_and = matches!(e, SB::And(..));
            let (sa, fa) = eval(a, n, info)?;
            let (sb, fb) = eval(b, n, info)?;
            // products of two minterm covers are empty unless the minterms coincide: always affordable
            let minterm_covers = matches!((&**a, &**b), (SB::FromLut(..), SB::FromLut(..)));
            if is_and && !minterm_covers && sa.num_cubes() * sb.num_cubes() > 1500 {
                info.skipped += 1;
                return Ok((sa, fa));
            }
            if has_redundancy(&sa, n) || has_redundancy(&sb, n) {
                info.redundant_operand = true;
            }
            let (ca, cb) = (sa.clone(), sb.clone());
            let opname = if is_and { "Sop &" } else { "Sop |" };
            let r = g(opname, guard(|| sop_binop(ca, cb, is_and, *form)))?;
            let want = if is_and { fa.and(&fb) } else { fa.or(&fb) };
            let what = format!("({}) {} ({}) [form {}] over {} variables", show(&sa), if is_and { "&" } else { "|" }, show(&sb), form, n);
            check_result(&what, &r, n, &want)?;
            info.ops += 1;
            Ok((r, want))
        }
        SB::Not(a, form) => {
            let (sa, fa) = eval(a, n, info)?;
            // the De Morgan product is exponential: bounded by size, not by time
            if n > 8 || sa.num_cubes() > 8 {
                info.skipped += 1;
                return Ok((sa, fa));
            }
            if has_redundancy(&sa, n) {
                info.redundant_operand = true;
            }
            let ca = sa.clone();
            let r = g("Sop !", guard(|| if form % 2 == 0 { !ca } else { !&ca }))?;
            let want = fa.not();
            let what = format!("!({}) [form {}] over {} variables", show(&sa), form, n);
            check_result(&what, &r, n, &want)?;
            info.ops += 1;
            Ok((r, want))
        }
    }
}

fn check_result(what: &str, r: &Sop, n: usize, want: &Tt) -> Result<(), Fail> {
    if r.num_vars() != n {
        return Err(Fail { sig: "result:num_vars".into(), msg: format!("{}: the result has {} variables", what, r.num_vars()) });
    }
    for m in 0..want.size() {
        if r.value(m) != want.get(m) {
            return Err(Fail {
                sig: "result:value".into(),
                msg: format!("{}: the result {} has value({}) = {} but the operation on the operand functions gives {} (expected function {})", what, show(r), m, r.value(m), want.get(m), want.short()),
            });
        }
    }
    let l = lut_model(&Lut::from(r));
    if l != *want {
        return Err(Fail { sig: "result:to_lut".into(), msg: format!("{}: Lut::from(&result) = {} but the function should be {}", what, l.short(), want.short()) });
    }
    if model_of(r, n) != *want {
        return Err(Fail { sig: "result:cubes".into(), msg: format!("{}: cubes() {} do not denote {}", what, show(r), want.short()) });
    }
    check_structure(what, r, n, want)
}

// ---------------------------------------------------------------------------------------------
// forms over 11..=32 variables: operation results compared with the description pointwise

#[derive(Clone, Debug, Hash, Serialize, Deserialize)]
pub struct WideCase {
    pub n: usize,
    pub e: SB,
    pub ms: Vec<u32>,
}

fn strategy_wide(_t: Tier) -> BoxedStrategy<WideCase> {
    prop_oneof![3 => 11usize..=31, 2 => Just(32usize), 1 => 16usize..=18]
        .prop_flat_map(|n| (arb_sb_wide(n), proptest::collection::vec(any::<u32>(), 8..=16)).prop_map(move |(e, ms)| WideCase { n, e, ms }))
        .boxed()
}

fn check_wide(what: &str, r: &Sop, d: &SB, n: usize, ms: &[u64]) -> Result<(), Fail> {
    if r.num_vars() != n {
        return Err(Fail { sig: "wide:num_vars".into(), msg: format!("{}: the result has {} variables, expected {}", what, r.num_vars(), n) });
    }
    let cubes: Vec<CubeM> = r.cubes().iter().map(CubeM::of).collect();
    for &m in ms {
        let want = d.eval_at(m);
        let got = r.value(m as usize);
        if got != want {
            return Err(Fail { sig: "wide:value".into(), msg: format!("{}: the result {} has value({:#x}) = {} but the operand functions give {}", what, show(r), m, got, want) });
        }
        if cubes.iter().any(|c| c.value(m)) != want {
            return Err(Fail { sig: "wide:cubes".into(), msg: format!("{}: cubes() {} evaluate to {} on {:#x}, expected {}", what, show(r), !want, m, want) });
        }
    }
    for (i, c) in cubes.iter().enumerate() {
        if *c == CubeM::Zero || r.cubes()[i].is_zero() {
            return Err(Fail { sig: "wide:zero-cube".into(), msg: format!("{}: the result contains a contradictory cube ({})", what, show(r)) });
        }
        if c.max_var().map(|v| v >= n).unwrap_or(false) {
            return Err(Fail { sig: "wide:var-range".into(), msg: format!("{}: the result contains the cube {} with a variable >= {}", what, c.show(), n) });
        }
        for (j, e) in cubes.iter().enumerate() {
            // for non-contradictory cubes semantic containment is inclusion of the literal sets
            if i != j && c.implies(e) {
                return Err(Fail { sig: "wide:absorbed-cube".into(), msg: format!("{}: the result keeps the cube {} although it implies (or repeats) the cube {} ({})", what, c.show(), e.show(), show(r)) });
            }
        }
    }
    // without contradictory cubes the function is constant zero iff there is no cube
    if r.is_zero() != cubes.is_empty() {
        return Err(Fail { sig: "wide:is_zero".into(), msg: format!("{}: is_zero() = {} for the result {}", what, r.is_zero(), show(r)) });
    }
    if r.is_one() && ms.iter().any(|m| !d.eval_at(*m)) {
        return Err(Fail { sig: "wide:is_one".into(), msg: format!("{}: is_one() holds for a result that is not constant one ({})", what, show(r)) });
    }
    Ok(())
}

fn eval_wide(e: &SB, n: usize, ms: &[u64], ops: &mut usize) -> Result<Sop, Fail> {
    let g = |what: &str, r: Result<Sop, String>| -> Result<Sop, Fail> {
        r.map_err(|p| Fail { sig: format!("panic:{}", what), msg: format!("{} over {} variables panicked on valid arguments: {} (description {:?})", what, n, p, e) })
    };
    match e {
        SB::Zero => g("Sop::zero", guard(|| Sop::zero(n))),
        SB::One => g("Sop::one", guard(|| Sop::one(n))),
        SB::NthVar(v) => g("Sop::nth_var", guard(|| Sop::nth_var(n, *v))),
        SB::NthVarInv(v) => g("Sop::nth_var_inv", guard(|| Sop::nth_var_inv(n, *v))),
        SB::FromCubes(cs) => g("Sop::from_cubes", guard(|| Sop::from_cubes(n, cs.iter().map(|c| c.build()).collect()))),
        SB::FromLut(..) => Err(Fail { sig: "harness".into(), msg: "harness bug: FromLut in a wide description".into() }),
        SB::And(a, b, form) | SB::Or(a, b, form) => {
            let is_and = matches!(e, SB::And(..));
            let sa = eval_wide(a, n, ms, ops)?;
            let sb = eval_wide(b, n, ms, ops)?;
            if is_and && sa.num_cubes() * sb.num_cubes() > 3000 {
                // too large a product: this node is not judged (the description then no longer
                // describes sa, so nothing above it is either)
                return Err(Fail { sig: "inconclusive:size".into(), msg: String::new() });
            }
            let (ca, cb) = (sa.clone(), sb.clone());
            let r = g(if is_and { "Sop &" } else { "Sop |" }, guard(|| sop_binop(ca, cb, is_and, *form)))?;
            let what = format!("({}) {} ({}) [form {}] over {} variables", show(&sa), if is_and { "&" } else { "|" }, show(&sb), form, n);
            check_wide(&what, &r, e, n, ms)?;
            *ops += 1;
            Ok(r)
        }
        SB::Not(a, form) => {
            let sa = eval_wide(a, n, ms, ops)?;
            if sa.num_cubes() > 3 || sa.cubes().iter().any(|c| c.num_lits() > 4) {
                return Err(Fail { sig: "inconclusive:size".into(), msg: String::new() });
            }
            let ca = sa.clone();
            let r = g("Sop !", guard(|| if form % 2 == 0 { !ca } else { !&ca }))?;
            let what = format!("!({}) [form {}] over {} variables", show(&sa), form, n);
            check_wide(&what, &r, e, n, ms)?;
            *ops += 1;
            Ok(r)
        }
    }
}

pub fn run_wide(c: &WideCase) -> Verdict {
    let mut leaf = Vec::new();
    c.e.leaf_cubes(&mut leaf);
    let ms = wide_assignments(c.n, &c.ms, &leaf);
    let mut ops = 0usize;
    let s = match eval_wide(&c.e, c.n, &ms, &mut ops) {
        Ok(s) => s,
        Err(f) if f.sig == "inconclusive:size" => return pass(false, vec!["skipped:size".into()]),
        Err(f) => return Err(f),
    };
    // the leaves themselves (constructors) are judged at the root
    check_leafwise(&s, &c.e, c.n, &ms)?;
    let hi = leaf.iter().any(|l| l.max_var().map(|v| v >= 16).unwrap_or(false));
    pass(ops >= 1 && hi, vec![format!("n:{}", if c.n == 32 { "32" } else if c.n > 16 { "17-31" } else { "11-16" }), format!("ops:{}", std::cmp::min(ops, 4))])
}

fn check_leafwise(r: &Sop, d: &SB, n: usize, ms: &[u64]) -> Result<(), Fail> {
    for &m in ms {
        let want = d.eval_at(m);
        let got = r.value(m as usize);
        if got != want {
            return Err(Fail { sig: "wide:value".into(), msg: format!("Sop {:?} over {} variables = {}: value({:#x}) = {} but the description gives {}", d, n, show(r), m, got, want) });
        }
    }
    Ok(())
}

pub fn run(c: &Case) -> Verdict {
    let mut info = Info::default();
    let (s, f) = match eval(&c.e, c.n, &mut info) {
        Ok(x) => x,
        Err(fl) => return Err(fl),
    };
    // the root value agrees with its model also when it is a leaf
    for m in 0..f.size() {
        let got = lib!("Sop::value", s.value(m));
        ensure!(got == f.get(m), "value", "Sop {}.value({}) = {} but the OR of its cubes is {}", show(&s), m, got, f.get(m));
    }
    if !f.is_const() {
        info.nonconst_result = true;
    }
    // the same object as both operands: s | s and s & s denote s
    if s.num_cubes() <= 38 {
        let r = lib!("Sop | with the same object on both sides", &s | &s);
        check_result(&format!("s | s with the same object s = {} on both sides", show(&s)), &r, c.n, &f)?;
        let r = lib!("Sop & with the same object on both sides", &s & &s);
        check_result(&format!("s & s with the same object s = {} on both sides", show(&s)), &r, c.n, &f)?;
    }
    let mut labels = vec![format!("n:{}", c.n), format!("ops:{}", std::cmp::min(info.ops, 6))];
    if info.skipped > 0 {
        labels.push("size-bounded-op-skipped".into());
    }
    if info.redundant_operand {
        labels.push("redundant-operand".into());
    }
    pass(info.ops >= 1 && info.redundant_operand && info.nonconst_result, labels)
}

/// n <= 2: all subsets of the 3^n cubes as operand pairs (2^18 for n = 2) and as ! operands;
/// n = 3: all lists of <= 2 cubes
fn enumerate(t: Tier, shard: usize, nshards: usize, f: &mut dyn FnMut(Case) -> bool) {
    let mut sc = ShardCounter::new(shard, nshards);
    let cubes_of = |n: usize| -> Vec<CB> {
        let mut v = Vec::new();
        for p in 0..(1u32 << n) {
            for ng in 0..(1u32 << n) {
                if p & ng == 0 {
                    v.push(CB::FromMask(p, ng));
                }
            }
        }
        v
    };
    for n in 0..=2usize {
        let cubes = cubes_of(n);
        let k = cubes.len(); // 1, 3, 9
        let subsets: Vec<Vec<CB>> = (0..(1usize << k)).map(|s| (0..k).filter(|i| (s >> i) & 1 != 0).map(|i| cubes[i].clone()).collect()).collect();
        // quick: every 7th pair for n = 2 (2^18 pairs), everything otherwise
        let stride = if n == 2 { t.pick(7usize, 1) } else { 1 };
        let mut idx = 0usize;
        for a in &subsets {
            if sc.mine() && !f(Case { n, e: SB::Not(Box::new(SB::FromCubes(a.clone())), 0) }) {
                return;
            }
            for b in &subsets {
                idx += 1;
                if idx % stride != 0 {
                    continue;
                }
                if !sc.mine() {
                    continue;
                }
                let (x, y) = (Box::new(SB::FromCubes(a.clone())), Box::new(SB::FromCubes(b.clone())));
                let e = if idx % 2 == 0 { SB::And(x, y, (idx % 4) as u8) } else { SB::Or(x, y, (idx % 4) as u8) };
                if !f(Case { n, e }) {
                    return;
                }
                if t == Tier::Thorough {
                    let (x, y) = (Box::new(SB::FromCubes(a.clone())), Box::new(SB::FromCubes(b.clone())));
                    let e = if idx % 2 == 1 { SB::And(x, y, (idx % 4) as u8) } else { SB::Or(x, y, (idx % 4) as u8) };
                    if !f(Case { n, e }) {
                        return;
                    }
                }
            }
        }
    }
    // n = 3: all lists of <= 2 cubes (27 cubes): pairs of lists under &, |, and !
    let cubes = cubes_of(3);
    let mut lists: Vec<Vec<CB>> = vec![vec![]];
    for a in &cubes {
        lists.push(vec![a.clone()]);
    }
    for a in &cubes {
        for b in &cubes {
            lists.push(vec![a.clone(), b.clone()]);
        }
    }
    let stride = t.pick(11usize, 1);
    let mut idx = 0usize;
    for a in &lists {
        if sc.mine() && !f(Case { n: 3, e: SB::Not(Box::new(SB::FromCubes(a.clone())), 1) }) {
            return;
        }
        for b in &lists {
            idx += 1;
            if idx % stride != 0 || !sc.mine() {
                continue;
            }
            let (x, y) = (Box::new(SB::FromCubes(a.clone())), Box::new(SB::FromCubes(b.clone())));
            let e = if (idx / stride) % 2 == 0 { SB::And(x, y, (idx % 4) as u8) } else { SB::Or(x, y, (idx % 4) as u8) };
            if !f(Case { n: 3, e }) {
                return;
            }
        }
    }
}

/// Cube is used in signatures above
#[allow(dead_code)]
// ---------------------------------------------------------------------------------------------
// covers of more than 2^16 cubes: the statement bounds neither the number of variables nor the
// number of cubes of an operand ("whatever cubes the operands were built from")

#[derive(Clone, Debug, Hash, Serialize, Deserialize)]
pub struct ManyCase {
    pub n: usize,
    /// odd multiplier and offset of the bijection k -> (k * mul + off) mod 2^n that picks the minterms
    pub mul: u32,
    pub off: u32,
    pub na: usize,
    pub nb: usize,
    /// minterms common to both operands
    pub overlap: usize,
    pub probes: Vec<u32>,
}

fn strategy_many(t: Tier) -> BoxedStrategy<ManyCase> {
    // totals around 2^16 (and, thorough only, around 2^17): simplification is quadratic in the
    // number of cubes, about 2 s per case at 2^16 in a release build
    let total = match t {
        Tier::Quick => prop_oneof![2 => 65_530usize..=65_560, 1 => 65_561usize..=66_200].boxed(),
        Tier::Thorough => prop_oneof![8 => 65_530usize..=65_560, 6 => 65_561usize..=70_000, 3 => 131_060usize..=131_100, 1 => 262_130usize..=262_160].boxed(),
    };
    (17usize..=19, any::<u32>(), any::<u32>(), total, 1usize..=999, 0usize..=40, proptest::collection::vec(any::<u32>(), 64..=64))
        .prop_map(|(n, mul, off, total, split, overlap, probes)| {
            let na = std::cmp::max(1, total * split / 1000);
            let nb = total - na + overlap;
            let mut n = n;
            while na + std::cmp::max(nb, 1) > (1usize << n) {
                n += 1;
            }
            ManyCase { n, mul: mul | 1, off, na, nb: std::cmp::max(nb, 1), overlap: std::cmp::min(overlap, na), probes }
        })
        .boxed()
}

pub fn run_many(c: &ManyCase) -> Verdict {
    let n = c.n;
    let mask = (1u64 << n) - 1;
    let pick = |k: usize| -> usize { (((k as u64).wrapping_mul(c.mul as u64).wrapping_add(c.off as u64)) & mask) as usize };
    ensure!(c.na + c.nb <= (1usize << n) && c.overlap <= c.na, "harness:many", "harness bug: more minterms than assignments");
    let ma: Vec<usize> = (0..c.na).map(pick).collect();
    let mb: Vec<usize> = (c.na - c.overlap..c.na - c.overlap + c.nb).map(pick).collect();
    let mut member = vec![false; 1usize << n];
    for &m in ma.iter().chain(mb.iter()) {
        member[m] = true;
    }
    let total = member.iter().filter(|&&b| b).count();
    let a = lib!("from_cubes", Sop::from_cubes(n, ma.iter().map(|&m| Cube::minterm(n, m)).collect()));
    let b = lib!("from_cubes", Sop::from_cubes(n, mb.iter().map(|&m| Cube::minterm(n, m)).collect()));
    let r = lib!("a | b on covers of many cubes", &a | &b);
    if r.num_vars() != n {
        return fail("many:num_vars", format!("a | b over {} variables has {} variables", n, r.num_vars()));
    }
    // probes: members spread over both operands, their neighbours (one bit flipped), and drawn assignments
    let mut ps: Vec<usize> = Vec::new();
    for (i, &p) in c.probes.iter().enumerate() {
        let p = p as usize;
        ps.push(ma[p % ma.len()]);
        ps.push(mb[p % mb.len()]);
        ps.push(ma[p % ma.len()] ^ (1usize << (i % n)));
        ps.push(p & mask as usize);
    }
    ps.extend([ma[0], ma[ma.len() - 1], mb[0], mb[mb.len() - 1], ma[ma.len() / 2], mb[mb.len() / 2]]);
    let cubes = r.cubes();
    for &m in &ps {
        let got = r.value(m);
        if got != member[m] {
            return fail(
                "many:value",
                format!(
                    "a | b of minterm covers with {} and {} cubes ({} distinct minterms over {} variables; minterm k is (k*{}+{}) mod 2^{}): the result has {} cubes and value({:#x}) = {}, but that assignment is {}a minterm of an operand",
                    c.na, c.nb, total, n, c.mul, c.off, n, r.num_cubes(), m, got, if member[m] { "" } else { "not " }
                ),
            );
        }
        if cubes.iter().any(|q| q.value(m)) != member[m] {
            return fail("many:cubes", format!("a | b of minterm covers ({} distinct minterms over {} variables): cubes() evaluate to {} on {:#x}", total, n, !member[m], m));
        }
    }
    pass(total >= 65_536, vec![format!("n:{}", n), format!("total:{}", if total >= 262_144 { ">=2^18" } else if total >= 131_072 { ">=2^17" } else if total >= 65_536 { ">=2^16" } else { "<2^16" })])
}

fn _unused(_: Cube) {}

pub fn def() -> PropDef {
    PropDef {
        id: "C14",
        rule: "cases = (n in 0..=10, expression): leaves are zero, one, nth_var(_inv), Sop::from(&Lut)/from(Lut), and from_cubes of generated cube lists with *designed redundancy* (up to 6 base cubes built through every Cube constructor, then duplicates, children c & literal, parents with a literal dropped, complementary literal pairs x / !x, the empty cube); inner nodes are &, | (4 reference forms each) and ! (2 forms), nested up to depth 4. The expression is evaluated bottom-up on the library and, independently, on tabulated functions in the model; for EVERY operation result r: value(m) on every assignment, Lut::from(&r) and the cubes() read through pos_vars()/neg_vars() denote op(function(a), function(b)); r contains no contradictory cube, no variable >= n, no duplicate, and no cube that semantically implies another cube of r (all assignments enumerated); is_zero() iff the function is constant zero; is_one() only if it is constant one (x | !x is constant one without being recognised, which the property allows). Sop::from(&lut).cubes() must be the minterms of the on-set, each once, and convert back to lut. ! is applied only to operands with <= 8 cubes over <= 8 variables and & only when the cube product is <= 1500 (bounded by size, not time; skipped ones are labelled). Non-trivial = >= 1 operation with an operand containing a duplicate, nested or overlapping pair of cubes, and a non-constant result. Exhaustive: n<=2 all subsets of the 3^n cubes as operands of ! and (every 7th pair in quick, all 2^18 in thorough) as operand pairs of & / |; n=3 all lists of <= 2 cubes (every 11th pair in quick).",
        assumptions: vec![
            "Sop::from_cubes is given non-contradictory cubes over variables < n, as its assertions require",
            "the structural guarantees are demanded of operation results only (from_cubes itself does not simplify)",
        ],
        subs: vec![Box::new(Sub {
            name: "expr",
            rule: "see property rule",
            strategy,
            cases: (200_000, 3_000_000),
            exhaustive: Some(enumerate),
            exhaustive_note: "n<=2: all subsets of cubes as operands (pairs strided by 7 in quick); n=3: all lists of <=2 cubes (pairs strided by 11 in quick)",
            run,
        }),
        Box::new(Sub {
            name: "wide",
            rule: "n in 11..=32 (32 and 16..18 over-represented): descriptions built from literals, from_cubes lists of up to 3 cubes of up to 4 literals (variables biased to the top of the range and to 15/16/17/30/31), their complements, general cube lists, combined by & and | (4 forms); every operation result is compared with the description on 8..16 generated 32-bit assignments, the constant and alternating ones, and a satisfying assignment plus a near miss for every cube given to a constructor: value(m), cubes() read back, no contradictory / out-of-range / absorbed / repeated cube (literal-set inclusion), is_zero iff no cube, is_one only if every sampled value is true. Non-trivial = at least one operation and a literal of a variable >= 16.",
            strategy: strategy_wide,
            cases: (60_000, 1_500_000),
            exhaustive: None,
            exhaustive_note: "",
            run: run_wide,
        }),
        Box::new(Sub {
            name: "manycubes",
            rule: "a | b of two minterm covers over 17..=19 variables whose union has 65530..66200 (quick) / up to 70000, around 2^17 and rarely 2^18 (thorough) distinct minterms, split anywhere between the operands, with 0..40 common minterms; minterms picked by an affine bijection modulo 2^n. Oracle: value() of the result and the OR of its cubes() on ~260 probes (members of either operand incl. first/middle/last, their one-bit neighbours, drawn assignments) against set membership. Non-trivial = at least 2^16 distinct minterms (the first size where a 16-bit cube index would wrap).",
            strategy: strategy_many,
            cases: (6, 120),
            exhaustive: None,
            exhaustive_note: "",
            run: run_many,
        })],
    }
}
