//! C05 — canonization witnesses (permutation, complementation mask) map input to result.

use proptest::prelude::*;
use serde::{Deserialize, Serialize};

use crate::adapter::Fam;
use crate::common::*;
use crate::engine::*;
use crate::gen::*;
use crate::model::Tt;
use crate::orbit::*;
use crate::props::c04::{arb_canon_tt, arb_group, canon, positioned_input, PosCase};
use crate::ensure;

#[derive(Clone, Debug, Hash, Serialize, Deserialize)]
pub struct Case {
    pub fam: Fam,
    pub group: Group,
    pub f: Tt,
}

fn strategy(t: Tier) -> BoxedStrategy<Case> {
    let w7 = t.pick(1u32, 3u32);
    (arb_fam(), arb_group(), prop_oneof![4 => 0usize..=4, 10 => 5usize..=6, w7 => Just(7usize)])
        .prop_flat_map(|(fam, group, n)| arb_canon_tt(n).prop_map(move |f| Case { fam, group, f }))
        .boxed()
}

fn strategy_large(_t: Tier) -> BoxedStrategy<Case> {
    (arb_fam(), arb_group(), Just(8usize))
        .prop_flat_map(|(fam, group, n)| arb_canon_tt(n).prop_map(move |f| Case { fam, group, f }))
        .boxed()
}

/// check one (input, result, perm, mask) certificate; Ok(is input moved by the transform?)
fn check_cert(what: &str, g: Group, f: &Tt, rep: &Tt, perm: &[u8], mask: u32) -> Result<bool, Fail> {
    let n = f.n;
    if !is_permutation(perm, n) {
        return Err(Fail { sig: format!("perm-invalid:{}", g.name()), msg: format!("{} of {}: perm {:?} is not a permutation of 0..{}", what, f.short(), perm, n) });
    }
    if (mask as u64) >> (n + 1) != 0 {
        return Err(Fail { sig: format!("mask-high-bits:{}", g.name()), msg: format!("{} of {}: mask {:#b} has a bit above position {}", what, f.short(), mask, n) });
    }
    let img = certificate_image(f, perm, mask);
    if img != *rep {
        return Err(Fail {
            sig: format!("witness-wrong:{}", g.name()),
            msg: format!(
                "{} of {} returned ({}, perm={:?}, mask={:#b}) but applying the certificate to the argument (g(y)=f(x)^mask[n], x[perm[i]]=y[i]^mask[i]) gives {}",
                what, f.short(), rep.short(), perm, mask, img.short()
            ),
        });
    }
    Ok(img != *f)
}

pub fn run(c: &Case) -> Verdict {
    let x = match load(c.fam, &c.f) {
        Ok(x) => x,
        Err(_) => return pass(false, vec!["skipped:unloadable".into()]),
    };
    let n = c.f.n;
    let g = c.group;
    let what = format!("{}::{}_canonization", c.fam.label(), g.name());
    // the property is about the certificate; whether canonization terminates normally for
    // every size is C04's statement, so a panic is not judged here
    let (rep, perm, mask) = match guard(|| canon(x.as_ref(), g)) {
        Ok(r) => r,
        Err(_) => return pass(false, vec!["skipped:canonization-panicked(C04)".into()]),
    };
    let repm = match guard(|| to_model(rep.as_ref())) {
        Ok(m) if m.n == n => m,
        _ => return pass(false, vec!["skipped:result-unreadable".into()]),
    };
    ensure!(perm.len() == n, format!("perm-length:{}", g.name()), "{}: perm has {} entries for {} variables", what, perm.len(), n);
    let moved = match check_cert(&what, g, &c.f, &repm, &perm, mask) {
        Ok(m) => m,
        Err(f) => return Err(f),
    };
    // second call on the returned table: the argument is then (normally) its own representative
    let mut labels = vec![format!("fam:{}", c.fam.label()), format!("group:{}", g.name()), format!("n:{}", n)];
    if let Ok((rep2, perm2, mask2)) = guard(|| canon(rep.as_ref(), g)) {
        if let Ok(rep2m) = guard(|| to_model(rep2.as_ref())) {
            if rep2m.n == n && perm2.len() == n {
                if let Err(mut f) = check_cert(&format!("{} (argument = a returned representative)", what), g, &repm, &rep2m, &perm2, mask2) {
                    f.sig = format!("{}:on-representative", f.sig);
                    return Err(f);
                }
                if rep2m == repm {
                    labels.push("fixed-point-input-checked".into());
                }
            }
        }
    }
    if !moved {
        labels.push("input-already-canonical-or-symmetric".into());
    }
    // symmetric inputs: several certificates are valid; any valid one is accepted
    let sym = (0..n).all(|i| (0..n).all(|j| c.f.swap(i, j) == c.f));
    if sym && n >= 2 {
        labels.push("totally-symmetric-input".into());
    }
    // non-trivial: the certificate is not the identity and the function is moved by it
    let ident = perm.iter().enumerate().all(|(i, p)| *p as usize == i) && mask == 0;
    pass(moved && !ident, labels)
}

fn strategy_pos(t: Tier) -> BoxedStrategy<PosCase> {
    let w8 = t.pick(1u32, 3u32);
    (arb_fam(), arb_group(), prop_oneof![2 => 2usize..=4, 6 => 5usize..=6, 8 => Just(7usize), w8 => Just(8usize)], 0u8..=11, any::<u64>())
        .prop_flat_map(|(fam, group, n, pos_class, pos_raw)| crate::gen::arb_tt(n).prop_map(move |r| PosCase { fam, group, r, pos_class, pos_raw }))
        .boxed()
}

/// certificate check on an input whose minimum is met at a chosen position of the walk
fn run_pos(c: &PosCase) -> Verdict {
    let (f, _cm, idx, total) = match positioned_input(c) {
        Some(v) => v,
        None => return pass(false, vec!["skipped:cannot-position".into()]),
    };
    match run(&Case { fam: c.fam, group: c.group, f }) {
        Ok(mut p) => {
            p.labels.push(format!("pos:{}", c.pos_class));
            Ok(p)
        }
        Err(mut e) => {
            e.msg = format!("{} [input built so that the walk meets the minimum at compare point {} of {}]", e.msg, idx, total);
            Err(e)
        }
    }
}

fn enumerate(t: Tier, shard: usize, nshards: usize, f: &mut dyn FnMut(Case) -> bool) {
    let max_n = t.pick(3, 4);
    let mut sc = ShardCounter::new(shard, nshards);
    for fam in [Fam::Dyn, Fam::Static] {
        for group in [Group::P, Group::N, Group::Npn] {
            for n in 0..=max_n {
                let count = 1u64 << (1u32 << n);
                for x in 0..count {
                    if !sc.mine() {
                        continue;
                    }
                    if !f(Case { fam, group, f: Tt::from_words(n, vec![x]) }) {
                        return;
                    }
                }
            }
        }
    }
}

pub fn def() -> PropDef {
    PropDef {
        id: "C05",
        rule: "cases = (family, group in {P,N,NPN}, f); the returned (table, perm, mask) must satisfy: perm is a permutation of 0..n, mask has no bit above n (P: mask=0 by type, N: perm=identity by type), and g(y) = f(x) ^ mask[n] with x[perm[i]] = y[i] ^ mask[i], evaluated by the harness on every assignment, equals the returned table; then the returned table is canonized again and that second certificate is checked too, so every case also exercises an argument that is already its own representative. Exhaustive for all f of n<=3 (quick) / n<=4 (thorough) x 3 groups x 2 families; generated f (table generator + few-ones + symmetric + partially symmetric + weighted-vote + multiplexer-of-self-dual-functions classes) for n in 0..=7, and n=8 in `large`. walkpos: the same certificate check on inputs built (as in C04/walkpos) so that the library's walk meets the orbit minimum at a chosen compare point: first three, last two, around the middle, around a block boundary, or uniformly drawn. Non-trivial = the certificate is not the identity and the function is not invariant under it; fixed-point and totally symmetric inputs are labelled.",
        assumptions: vec![
            "value(), from_blocks()/set_bit() as observation/loading channel",
            "a canonization call that panics is skipped here (normal termination for every n is C04)",
            "any valid certificate is accepted (functions with symmetries have several)",
        ],
        subs: vec![
            Box::new(Sub {
                name: "witness",
                rule: "n<=7",
                strategy,
                cases: (100_000, 1_000_000),
                exhaustive: Some(enumerate),
                exhaustive_note: "all functions of n<=3 (quick) / n<=4 (thorough) x {P,N,NPN} x {Lut,LutN}, plus the returned representative of each as a second argument",
                run,
            }),
            Box::new(Sub {
                name: "walkpos",
                rule: "certificates of inputs whose minimum is met at a chosen compare point of the walk (first, last, middle, block boundaries +-1, drawn), n in 2..=8",
                strategy: strategy_pos,
                cases: (1_500, 60_000),
                exhaustive: None,
                exhaustive_note: "",
                run: run_pos,
            }),
            Box::new(Sub {
                name: "witness-large",
                rule: "n=8",
                strategy: strategy_large,
                cases: (64, 1_000),
                exhaustive: None,
                exhaustive_note: "",
                run,
            }),
        ],
    }
}
