//! C13 — Ecube (XOR term) and Soes (OR of XOR terms) semantics.

use proptest::collection::vec;
use proptest::prelude::*;
use serde::{Deserialize, Serialize};

use volute::sop::Ecube;
use volute::Lut;

use crate::engine::*;
use crate::sopx::*;
use crate::{ensure, lib};

#[derive(Clone, Debug, Hash, Serialize, Deserialize)]
pub struct Case {
    pub nv: usize,
    pub a: EB,
    pub b: EB,
    pub ms: Vec<u32>,
}

fn strategy(_t: Tier) -> BoxedStrategy<Case> {
    prop_oneof![2 => 0usize..=5, 2 => 6usize..=12, 3 => 13usize..=32]
        .prop_flat_map(|nv| (arb_eb(nv), arb_eb(nv), vec(any::<u32>(), 1..=8)).prop_map(move |(a, b, ms)| Case { nv, a, b, ms }))
        .boxed()
}

fn run(c: &Case) -> Verdict {
    let (ma, mb) = (c.a.model(), c.b.model());
    let a = lib!("ecube construction", c.a.build());
    let b = lib!("ecube construction", c.b.build());
    let mut ms: Vec<u32> = c.ms.clone();
    if c.nv <= 5 {
        ms.extend(0..(1u32 << c.nv));
    }
    ms.extend([0u32, !0]);
    for (e, m, d) in [(&a, &ma, &c.a), (&b, &mb, &c.b)] {
        let back = lib!("Ecube::vars", EcubeM::of(e));
        ensure!(back == *m, "construct", "exclusive cube built as {:?} reads back as {} but should denote {}", d, back.show(), m.show());
        for &x in &ms {
            let got = lib!("Ecube::value", e.value(x as usize));
            ensure!(got == m.value(x as u64), "value", "({}).value({:#x}) = {} but the parity definition gives {}", m.show(), x, got, m.value(x as u64));
        }
        ensure!(e.is_zero() == (m.vars.is_empty() && !m.xnor), "is_zero", "is_zero() = {} for {}", e.is_zero(), m.show());
        ensure!(e.is_one() == (m.vars.is_empty() && m.xnor), "is_one", "is_one() = {} for {}", e.is_one(), m.show());
    }
    // equality is semantic
    ensure!((a == b) == (ma == mb), "eq", "{} == {} is {} but as functions they are {}", ma.show(), mb.show(), a == b, if ma == mb { "equal" } else { "different" });
    // the same object as both operands: a ^ a is the zero term
    {
        let r = lib!("Ecube ^ with the same object on both sides", &a ^ &a);
        let z = EcubeM { vars: Default::default(), xnor: false };
        ensure!(EcubeM::of(&r) == z, "xor:alias", "a ^ a with the same object a = {} on both sides gives {}", ma.show(), EcubeM::of(&r).show());
    }
    // ^ in four forms, ! in two
    let mx = ma.xor(&mb);
    for form in 0..4u8 {
        let r = lib!("Ecube ^", EB::Xor(Box::new(c.a.clone()), Box::new(c.b.clone()), form).build());
        ensure!(EcubeM::of(&r) == mx, "xor", "({}) ^ ({}) [form {}] = {} but the XOR is {}", ma.show(), mb.show(), form, EcubeM::of(&r).show(), mx.show());
        for &x in ms.iter().take(40) {
            ensure!(r.value(x as usize) == (ma.value(x as u64) ^ mb.value(x as u64)), "xor:value", "(({}) ^ ({})).value({:#x}) is not the XOR of the operand values", ma.show(), mb.show(), x);
        }
    }
    for form in 0..2u8 {
        let r = lib!("Ecube !", EB::Not(Box::new(c.a.clone()), form).build());
        ensure!(EcubeM::of(&r) == ma.not(), "not", "!({}) [form {}] = {}", ma.show(), form, EcubeM::of(&r).show());
        for &x in ms.iter().take(40) {
            ensure!(r.value(x as usize) == !ma.value(x as u64), "not:value", "(!({})).value({:#x}) is not the complement", ma.show(), x);
        }
    }
    let overlap = ma.vars.intersection(&mb.vars).next().is_some();
    pass(ma.vars.len() >= 2 && mb.vars.len() >= 2 && overlap, vec![format!("nv:{}", match c.nv { 0..=5 => "<=5", 6..=12 => "6-12", _ => "13-32" })])
}

fn enumerate(t: Tier, shard: usize, nshards: usize, f: &mut dyn FnMut(Case) -> bool) {
    let mut sc = ShardCounter::new(shard, nshards);
    for nv in 0..=t.pick(4usize, 5) {
        let mut terms = Vec::new();
        for vars in 0..(1u32 << nv) {
            for x in [false, true] {
                terms.push(EB::FromVars((0..nv).filter(|v| (vars >> v) & 1 != 0).collect(), x));
            }
        }
        for a in &terms {
            for b in &terms {
                if sc.mine() && !f(Case { nv, a: a.clone(), b: b.clone(), ms: vec![] }) {
                    return;
                }
            }
        }
    }
}

// ---------------------------------------------------------------------------------------------
// Ecube::all

#[derive(Clone, Debug, Hash, Serialize, Deserialize)]
pub struct AllCase {
    pub n: usize,
}

fn run_all(c: &AllCase) -> Verdict {
    let n = c.n;
    let all: Vec<Ecube> = lib!("Ecube::all", Ecube::all(n).collect());
    ensure!(all.len() == 1usize << (n + 1), "all:count", "Ecube::all({}) yields {} terms, expected 2^(n+1)", n, all.len());
    let mut seen = std::collections::BTreeSet::new();
    for e in &all {
        let m = EcubeM::of(e);
        ensure!(m.vars.iter().all(|v| *v < n), "all:var-range", "Ecube::all({}) yields {}", n, m.show());
        ensure!(seen.insert(m.clone()), "all:duplicate", "Ecube::all({}) yields {} twice", n, m.show());
    }
    // the same enumeration through other iterator methods
    {
        let want = all.len();
        let cnt = lib!("Ecube::all().count()", Ecube::all(n).count());
        ensure!(cnt == want, "all:consume", "Ecube::all({}).count() = {}, expected {}", n, cnt, want);
        let last = lib!("Ecube::all().last()", Ecube::all(n).last());
        ensure!(last == all.last().copied(), "all:consume", "Ecube::all({}).last() differs from the last item yielded by next()", n);
        let folded = lib!("Ecube::all().fold", Ecube::all(n).fold(0usize, |c, _| c + 1));
        ensure!(folded == want, "all:consume", "Ecube::all({}) folded yields {} items, expected {}", n, folded, want);
        for k in [0usize, 1, want / 2, want - 1, want, want + 7] {
            let got = lib!("Ecube::all().nth", Ecube::all(n).nth(k));
            ensure!(got == all.get(k).copied(), "all:consume", "Ecube::all({}).nth({}) differs from item {} yielded by next()", n, k, k);
        }
    }
    pass(n >= 1, vec![format!("n:{}", n)])
}

fn strategy_all(_t: Tier) -> BoxedStrategy<AllCase> {
    (0usize..=10).prop_map(|n| AllCase { n }).boxed()
}

fn enumerate_all(t: Tier, shard: usize, nshards: usize, f: &mut dyn FnMut(AllCase) -> bool) {
    let mut sc = ShardCounter::new(shard, nshards);
    for n in 0..=t.pick(10usize, 14) {
        if sc.mine() && !f(AllCase { n }) {
            return;
        }
    }
}

// ---------------------------------------------------------------------------------------------
// Soes

#[derive(Clone, Debug, Hash, Serialize, Deserialize)]
pub struct SoesCase {
    pub n: usize,
    pub s: OB,
}

fn strategy_soes(_t: Tier) -> BoxedStrategy<SoesCase> {
    (0usize..=8).prop_flat_map(|n| arb_ob(n, 6).prop_map(move |s| SoesCase { n, s })).boxed()
}

fn run_soes(c: &SoesCase) -> Verdict {
    let n = c.n;
    let want = c.s.model(n);
    let s = lib!("Soes construction", c.s.build(n));
    ensure!(s.num_vars() == n, "num_vars", "Soes has {} variables, built for {}", s.num_vars(), n);
    for m in 0..want.size() {
        let got = lib!("Soes::value", s.value(m));
        ensure!(got == want.get(m), "value", "Soes `{:?}`.value({}) = {} but the OR of its terms is {}", c.s, m, got, want.get(m));
    }
    let l1 = lib!("Lut::from(&Soes)", Lut::from(&s));
    let l2 = lib!("Lut::from(Soes)", Lut::from(s.clone()));
    ensure!(lut_model(&l1) == want, "to_lut", "Lut::from(&soes) = {} but the function is {} (soes {:?})", lut_model(&l1).short(), want.short(), c.s);
    ensure!(lut_model(&l2) == want, "to_lut:byval", "Lut::from(soes) = {} but the function is {}", lut_model(&l2).short(), want.short());
    if s.is_zero() {
        ensure!(want.is_zero(), "is_zero", "is_zero() holds for a Soes denoting {}", want.short());
    }
    if s.is_one() {
        ensure!(want.is_one(), "is_one", "is_one() holds for a Soes denoting {}", want.short());
    }
    // the same object as both operands: s | s denotes s
    {
        let r = lib!("Soes | with the same object on both sides", &s | &s);
        for m in 0..want.size() {
            ensure!(r.value(m) == want.get(m), "or:alias", "s | s with the same object s = `{:?}` on both sides has value({}) = {}", c.s, m, r.value(m));
        }
    }
    // (how many terms are stored is not part of the property: a constructor may merge duplicates)
    let stored: Vec<EcubeM> = s.cubes().iter().map(EcubeM::of).collect();
    ensure!(tabulate(n, |m| stored.iter().any(|e| e.value(m))) == want, "cubes", "cubes() of the Soes `{:?}` do not denote its function {}", c.s, want.short());
    // non-trivial: >= 2 terms with overlapping supports
    let ts: Vec<EcubeM> = s.cubes().iter().map(EcubeM::of).collect();
    let mut overl = false;
    for i in 0..ts.len() {
        for j in 0..i {
            if ts[i].vars.intersection(&ts[j].vars).next().is_some() {
                overl = true;
            }
        }
    }
    pass(overl && !want.is_const(), vec![format!("n:{}", n), format!("terms:{}", std::cmp::min(ts.len(), 8))])
}

fn enumerate_soes(t: Tier, shard: usize, nshards: usize, f: &mut dyn FnMut(SoesCase) -> bool) {
    // all lists of <= 2 terms (quick) / <= 3 terms and a stride of the 4-term lists (thorough), n <= 4
    let mut sc = ShardCounter::new(shard, nshards);
    for n in 0..=t.pick(3usize, 4) {
        let mut terms = Vec::new();
        for vars in 0..(1u32 << n) {
            for x in [false, true] {
                terms.push(EB::FromVars((0..n).filter(|v| (vars >> v) & 1 != 0).collect(), x));
            }
        }
        let k = terms.len();
        let max_len = t.pick(2usize, 3);
        for len in 0..=max_len {
            let total = k.pow(len as u32);
            for idx in 0..total {
                if !sc.mine() {
                    continue;
                }
                let mut r = idx;
                let mut cs = Vec::new();
                for _ in 0..len {
                    cs.push(terms[r % k].clone());
                    r /= k;
                }
                if !f(SoesCase { n, s: OB::FromCubes(cs) }) {
                    return;
                }
            }
        }
        if t == Tier::Thorough && n >= 2 {
            // 4-term lists: a deterministic sample of 100 000 per n (stride walk)
            let total = (k as u64).pow(4);
            let step = std::cmp::max(1, total / 100_000) | 1;
            let mut idx = 0u64;
            while idx < total {
                if sc.mine() {
                    let mut r = idx as usize;
                    let mut cs = Vec::new();
                    for _ in 0..4 {
                        cs.push(terms[r % k].clone());
                        r /= k;
                    }
                    if !f(SoesCase { n, s: OB::FromCubes(cs) }) {
                        return;
                    }
                }
                idx += step;
            }
        }
    }
}

#[derive(Clone, Debug, Hash, Serialize, Deserialize)]
pub struct SoesWideCase {
    pub n: usize,
    pub s: OB,
    pub ms: Vec<u32>,
}

fn strategy_soes_wide(_t: Tier) -> BoxedStrategy<SoesWideCase> {
    prop_oneof![3 => 9usize..=31, 2 => Just(32usize), 1 => 16usize..=18]
        .prop_flat_map(|n| (arb_ob(n, 6), proptest::collection::vec(any::<u32>(), 8..=16)).prop_map(move |(s, ms)| SoesWideCase { n, s, ms }))
        .boxed()
}

fn run_soes_wide(c: &SoesWideCase) -> Verdict {
    let n = c.n;
    let mut leaf = Vec::new();
    c.s.leaf_terms(&mut leaf);
    let ms = wide_assignments_terms(n, &c.ms, &leaf);
    let s = lib!(format!("Soes construction over {} variables ({:?})", n, c.s), c.s.build(n));
    ensure!(s.num_vars() == n, "wide:num_vars", "Soes has {} variables, built for {}", s.num_vars(), n);
    let stored: Vec<EcubeM> = s.cubes().iter().map(EcubeM::of).collect();
    for &m in &ms {
        let want = c.s.eval_at(m);
        let got = lib!("Soes::value", s.value(m as usize));
        ensure!(got == want, "wide:value", "Soes `{:?}` over {} variables: value({:#x}) = {} but the OR of its terms is {}", c.s, n, m, got, want);
        let by_terms = stored.iter().any(|e| e.value(m));
        ensure!(by_terms == want, "wide:cubes", "Soes `{:?}` over {} variables: cubes() evaluate to {} on {:#x}, expected {}", c.s, n, by_terms, m, want);
    }
    for e in &stored {
        ensure!(e.vars.iter().all(|v| *v < n), "wide:var-range", "Soes `{:?}`: a stored term has a variable >= {}", c.s, n);
    }
    if s.is_zero() {
        ensure!(ms.iter().all(|m| !c.s.eval_at(*m)), "wide:is_zero", "is_zero() holds for the Soes `{:?}` which is not constant zero", c.s);
    }
    if s.is_one() {
        ensure!(ms.iter().all(|m| c.s.eval_at(*m)), "wide:is_one", "is_one() holds for the Soes `{:?}` which is not constant one", c.s);
    }
    let hi = leaf.iter().any(|t| t.vars.iter().any(|v| *v >= 16));
    pass(leaf.len() >= 2 && hi, vec![format!("n:{}", if n == 32 { "32" } else if n > 16 { "17-31" } else { "9-16" })])
}

pub fn def() -> PropDef {
    PropDef {
        id: "C13",
        rule: "ecube: cases = (nv, a, b, assignments): exclusive cubes are build descriptions over variables < nv (nv in 0..=32) — one, zero, nth_var(_inv), from_vars with repeated variables, chains of ^ (4 reference forms) and ! (2 forms) — with the parity model computed by the harness. Checked: vars()/value(0) read back the model; value(m) = parity ^ xnor on all assignments (nv<=5) and generated 32-bit ones; is_zero/is_one; == iff same function; ^ and ! pointwise and structurally. Exhaustive: all ordered pairs of the 2^(n+1) terms for n<=4 (quick) / n<=5 (thorough). all: Ecube::all(n) yields 2^(n+1) distinct terms over variables < n, n<=10 (14 thorough), the same items through count/last/fold/nth. soes: cases = (n<=8, Soes description: zero/one/nth_var(_inv)/from_cubes of up to 6 generated terms, | in 4 forms); value(m) = OR of the term values on every assignment, Lut::from(&s) and Lut::from(s) tabulate exactly that, is_zero => constant 0, is_one => constant 1, cubes() denote the same function; exhaustive over all lists of <= 2 terms for n<=3 (quick), <= 3 terms for n<=4 plus a 100 000-list stride sample of 4-term lists (thorough). Non-trivial = two multi-variable terms sharing a variable (ecube) / overlapping terms and a non-constant function (soes).",
        assumptions: vec!["variables < 32 (u32 masks); Soes::from_cubes is given variables < n as it requires"],
        subs: vec![
            Box::new(Sub { name: "ecube", rule: "see property rule", strategy, cases: (300_000, 4_000_000), exhaustive: Some(enumerate), exhaustive_note: "all ordered pairs of exclusive cubes, all assignments, n<=4 (quick) / n<=5 (thorough)", run }),
            Box::new(Sub { name: "all", rule: "enumeration", strategy: strategy_all, cases: (0, 0), exhaustive: Some(enumerate_all), exhaustive_note: "n in 0..=10 (quick) / 0..=14 (thorough)", run: run_all }),
            Box::new(Sub { name: "soes-wide", rule: "n in 9..=32 (32 and 16..18 over-represented): Soes descriptions as in `soes`; value(m) and the OR of cubes() read back must equal the OR of the described terms on generated 32-bit assignments, the constant / alternating ones and, per term, an assignment and its neighbour with one variable of the term flipped; no variable >= n; is_zero/is_one only if every sampled value agrees. Non-trivial = >= 2 terms and a variable >= 16.", strategy: strategy_soes_wide, cases: (60_000, 1_000_000), exhaustive: None, exhaustive_note: "", run: run_soes_wide }),
            Box::new(Sub { name: "soes", rule: "see property rule", strategy: strategy_soes, cases: (200_000, 2_000_000), exhaustive: Some(enumerate_soes), exhaustive_note: "all term lists of length <= 2 over n<=3 (quick); length <= 3 over n<=4 plus strided 4-term lists (thorough)", run: run_soes }),
        ],
    }
}
