//! C19 — random() yields well-formed, non-degenerate, call-independent functions.
//!
//! The generator under test *is* random(); VERIF_SEED cannot seed thread_rng and only labels
//! the run. All thresholds are fixed analytically so that a fair generator fails with
//! probability below 2^-200 in total (see DESIGN.md).

use std::sync::{Arc, Barrier};

use proptest::prelude::*;
use serde::{Deserialize, Serialize};

use crate::adapter::Fam;
use crate::common::*;
use crate::engine::*;
use crate::model::words_for;

const DRAWS: usize = 256;
const THREADS: usize = 16;

#[derive(Clone, Debug, Hash, Serialize, Deserialize)]
pub struct Case {
    pub fam: Fam,
    pub n: usize,
    pub threads: usize,
    /// repetition number (fresh draws each time)
    pub rep: usize,
}

/// draws of one thread: blocks of every draw, or the first malformation
fn draw(fam: Fam, n: usize) -> Result<Vec<Vec<u64>>, Fail> {
    let f = fam.get();
    let mut v = Vec::with_capacity(DRAWS);
    for k in 0..DRAWS {
        let t = match guard(|| f.random(n)) {
            Ok(t) => t,
            Err(p) => return Err(Fail { sig: "panic:random".into(), msg: format!("{}::random(n={}) panicked: {}", fam.label(), n, p) }),
        };
        if t.n() != n {
            return Err(Fail { sig: "num_vars".into(), msg: format!("random({}) returned {} variables", n, t.n()) });
        }
        if let Err(e) = well_formed(t.as_ref()) {
            return Err(Fail { sig: "malformed".into(), msg: format!("{}::random(n={}) draw #{}: {}", fam.label(), n, k, e) });
        }
        // value() agrees with blocks() (the draw is a real table)
        let b = t.blocks();
        for m in [0usize, (1usize << n) - 1, (1usize << n) / 2] {
            if t.value(m) != ((b[m >> 6] >> (m & 63)) & 1 != 0) {
                return Err(Fail { sig: "value-vs-blocks".into(), msg: format!("random({}) draw: value({}) disagrees with blocks()", n, m) });
            }
        }
        v.push(b);
    }
    Ok(v)
}

/// rank over GF(2) of the rows (each `words` u64 wide)
fn gf2_rank(rows: &[Vec<u64>], words: usize) -> usize {
    let mut m: Vec<Vec<u64>> = rows.to_vec();
    let mut rank = 0;
    for col in 0..words * 64 {
        let (w, b) = (col / 64, col % 64);
        if let Some(p) = (rank..m.len()).find(|r| (m[*r][w] >> b) & 1 != 0) {
            m.swap(rank, p);
            let pivot = m[rank].clone();
            for r in 0..m.len() {
                if r != rank && (m[r][w] >> b) & 1 != 0 {
                    for k in 0..words {
                        m[r][k] ^= pivot[k];
                    }
                }
            }
            rank += 1;
            if rank == m.len() {
                break;
            }
        }
    }
    rank
}

fn check_thread(fam: Fam, n: usize, who: &str, v: &[Vec<u64>]) -> Result<(), Fail> {
    let words = words_for(n);
    let bits = 1usize << n;
    // every assignment receives both values among the 256 draws:
    // P(false alarm at one position) = 2 * 2^-256; union over <= 4096 positions * 13 sizes * 17 threads * 2 families < 2^-230
    let mut ones = vec![0u64; words];
    let mut zeros = vec![0u64; words];
    for b in v {
        for w in 0..words {
            ones[w] |= b[w];
            zeros[w] |= !b[w];
        }
    }
    for m in 0..bits {
        let (w, k) = (m >> 6, m & 63);
        if (ones[w] >> k) & 1 == 0 || (zeros[w] >> k) & 1 == 0 {
            return Err(Fail {
                sig: "position-never-varies".into(),
                msg: format!("{}::random(n={}) on {}: assignment {} received only the value {} in {} draws (word {})", fam.label(), n, who, m, (ones[w] >> k) & 1, DRAWS, w),
            });
        }
    }
    // the draws are not confined to a low-dimensional subspace: rank over GF(2) of the 256 draws
    // (as vectors of 2^n bits). For a fair generator a deficiency of k below min(256, 2^n) has
    // probability about 2^-(k^2) (k = 24: < 2^-500); a generator whose table is a function of a
    // few of its own bits (only the first word random, the other words derived from it by a linear
    // recurrence, repeated words, ...) has rank <= the number of free bits
    let full = std::cmp::min(v.len(), bits);
    if full >= 32 {
        let rank = gf2_rank(v, words);
        if rank + 24 < full {
            return Err(Fail {
                sig: "low-rank".into(),
                msg: format!("{}::random(n={}) on {}: the {} draws span only a {}-dimensional subspace of GF(2)^{} (expected about {}): the tables are functions of few independent bits", fam.label(), n, who, v.len(), rank, bits, full),
            });
        }
    }
    // every draw depends on every variable: for x_i the number of assignment pairs (x_i = 0 / 1)
    // on which the draw differs is Binomial(2^(n-1), 1/2); n >= 10: at least a quarter of the
    // expected count is required (Hoeffding: < e^-64 per variable and draw), n in 7..=9: at least
    // one (2^-64 at n = 7). A table that repeats its first words is independent of the top variables.
    if n >= 7 {
        for (k, b) in v.iter().enumerate() {
            for i in 0..n {
                let mut d = 0usize;
                if i < 6 {
                    let sh = 1u32 << i;
                    let keep = [0x5555_5555_5555_5555u64, 0x3333_3333_3333_3333, 0x0f0f_0f0f_0f0f_0f0f, 0x00ff_00ff_00ff_00ff, 0x0000_ffff_0000_ffff, 0x0000_0000_ffff_ffff][i];
                    for w in b.iter() {
                        d += (((w >> sh) ^ w) & keep).count_ones() as usize;
                    }
                } else {
                    let stride = 1usize << (i - 6);
                    for w in 0..words {
                        if w & stride == 0 {
                            d += (b[w] ^ b[w | stride]).count_ones() as usize;
                        }
                    }
                }
                let need = if n >= 10 { (bits / 2) / 8 } else { 1 };
                if d < need {
                    return Err(Fail {
                        sig: "independent-of-variable".into(),
                        msg: format!("{}::random(n={}) on {}: draw #{} differs on only {} of the {} assignment pairs of variable x{} (expected about {})", fam.label(), n, who, k, d, bits / 2, i, bits / 4),
                    });
                }
            }
        }
    }
    // draws differ from one another
    let distinct: std::collections::HashSet<&Vec<u64>> = v.iter().collect();
    if distinct.len() == 1 {
        return Err(Fail { sig: "all-draws-equal".into(), msg: format!("{}::random(n={}) on {}: all {} draws are the same table", fam.label(), n, who, DRAWS) });
    }
    if n >= 8 && distinct.len() != v.len() {
        // 256 draws of >= 256 bits: collision probability < 2^-240
        return Err(Fail { sig: "repeated-draw".into(), msg: format!("{}::random(n={}) on {}: only {} distinct tables in {} draws", fam.label(), n, who, distinct.len(), DRAWS) });
    }
    if n == 7 && v.len() - distinct.len() > 1 {
        return Err(Fail { sig: "repeated-draw".into(), msg: format!("random(7) on {}: {} repeated tables in {} draws", who, v.len() - distinct.len(), DRAWS) });
    }
    Ok(())
}

fn run(c: &Case) -> Verdict {
    let (fam, n) = (c.fam, c.n);
    let all: Vec<Vec<Vec<u64>>> = if c.threads <= 1 {
        match draw(fam, n) {
            Ok(v) => vec![v],
            Err(f) => return Err(f),
        }
    } else {
        let barrier = Arc::new(Barrier::new(c.threads));
        let handles: Vec<_> = (0..c.threads)
            .map(|_| {
                let b = barrier.clone();
                std::thread::spawn(move || {
                    crate::engine::install_panic_hook_noop();
                    b.wait();
                    draw(fam, n)
                })
            })
            .collect();
        let mut all = Vec::new();
        for h in handles {
            match h.join() {
                Ok(Ok(v)) => all.push(v),
                Ok(Err(f)) => return Err(f),
                Err(_) => return fail("panic:thread", "a drawing thread panicked"),
            }
        }
        all
    };
    for (i, v) in all.iter().enumerate() {
        let who = if c.threads <= 1 { "the main thread".to_string() } else { format!("thread {} of {}", i, c.threads) };
        if let Err(f) = check_thread(fam, n, &who, v) {
            return Err(f);
        }
    }
    // no two threads produce the same sequence (n >= 3: 256 draws of >= 8 bits)
    if n >= 3 {
        for i in 0..all.len() {
            for j in 0..i {
                if all[i] == all[j] {
                    return fail("threads-identical", format!("{}::random(n={}): threads {} and {} produced the same sequence of {} draws", fam.label(), n, j, i, DRAWS));
                }
            }
        }
    }
    // across threads, large tables never repeat
    if n >= 8 {
        let mut seen = std::collections::HashSet::new();
        for v in &all {
            for b in v {
                if !seen.insert(b.clone()) {
                    return fail("repeated-draw-across-threads", format!("random({}): the same table was drawn twice across threads", n));
                }
            }
        }
    }
    pass(true, vec![format!("fam:{}", fam.label()), format!("n:{}", n), format!("threads:{}", c.threads)])
}

fn strategy(_t: Tier) -> BoxedStrategy<Case> {
    (crate::gen::arb_fam(), 0usize..=12, prop_oneof![Just(1usize), Just(THREADS)]).prop_map(|(fam, n, threads)| Case { fam, n, threads, rep: 0 }).boxed()
}

fn enumerate(t: Tier, shard: usize, nshards: usize, f: &mut dyn FnMut(Case) -> bool) {
    let mut sc = ShardCounter::new(shard, nshards);
    // thorough repeats the whole sweep several times (fresh draws each time)
    for rep in 0..t.pick(4usize, 16) {
        for fam in [Fam::Dyn, Fam::Static] {
            // the dynamic type has no size limit: four sizes beyond the stated sample, main thread only
            for n in 0..=(if fam == Fam::Dyn { 16usize } else { 13 }) {
                for threads in [1usize, THREADS] {
                    if n > 12 && (threads != 1 || rep >= 2) {
                        continue;
                    }
                    if sc.mine() && !f(Case { fam, n, threads, rep }) {
                        return;
                    }
                }
            }
        }
    }
}

pub fn def() -> PropDef {
    PropDef {
        id: "C19",
        rule: "cases = (family, n in 0..=12 — Lut also 13..=16 on the main thread —, thread count in {1, 16}); the inputs are random()'s own draws: 256 draws on the main thread, and 256 draws on each of 16 threads released together by a barrier. Every draw must be well formed (block count, no bit >= 2^n, value() consistent with blocks()); per thread, every assignment must receive both values among the 256 draws, the draws must not all be equal, must span a subspace of GF(2)^(2^n) of dimension >= min(256, 2^n) - 24 (n >= 5), every draw must depend on every variable (n >= 7; n >= 10: differ on at least 1/8 of the assignment pairs of each variable), the draws must be pairwise distinct for n >= 8 (at most one repeat for n = 7); no two threads may produce the same sequence for n >= 3, and for n >= 8 no table may repeat across threads. All (family, n, threads) combinations are swept 4 times (quick) or 16 times (thorough): 208 resp. 832 sweeps of 256 draws per thread. Every case is non-trivial (distinct by family, n, threads); evaluations counts sweeps, the evidence also reports draws.",
        assumptions: vec![
            "statistical: thresholds chosen so that a fair generator raises an alarm with probability < 2^-200 per run",
            "thread_rng cannot be seeded: VERIF_SEED only labels the run; schedules are explored as `16 threads started together`",
        ],
        subs: vec![Box::new(Sub {
            name: "random",
            rule: "see property rule",
            strategy,
            cases: (0, 0),
            exhaustive: Some(enumerate),
            exhaustive_note: "every (family, n in 0..=12, threads in {1,16}) 4 times (quick) / 16 times (thorough); 256 draws per thread",
            run,
        })],
    }
}
