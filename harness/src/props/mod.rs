//! One module per property.

use crate::engine::PropDef;

pub mod c01;
pub mod c02;
pub mod c03;
pub mod c04;
pub mod c05;

/// All properties decided by the main `vcheck` binary (C18 lives in `vcheck_mip`).
pub fn registry() -> Vec<PropDef> {
    vec![c01::def(), c02::def(), c03::def(), c04::def(), c05::def()]
}

/// `vcheck serve`: execute operation descriptors sent by the other build profile (C17).
pub fn serve() -> i32 {
    eprintln!("serve: not built yet");
    2
}
