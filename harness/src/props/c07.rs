//! C07 — bdd_complexity equals the node count of the shared complement-edge ROBDD.

use proptest::collection::vec;
use proptest::prelude::*;
use serde::{Deserialize, Serialize};

use crate::adapter::{Fam, Tab, T};
use crate::bddref::shared_size;
use crate::common::*;
use crate::engine::*;
use crate::gen::*;
use crate::model::Tt;
use crate::{ensure, lib};

#[derive(Clone, Debug, Hash, Serialize, Deserialize)]
pub struct Case {
    pub fam: Fam,
    pub n: usize,
    pub fs: Vec<Tt>,
    /// metamorphic variant: rotation amount, member to duplicate, complement mask
    pub rot: usize,
    pub dup: usize,
    pub neg: u8,
}

/// functions that share sub-functions: a pool of sub-functions over the low k variables combined
/// by mux / and / xor over the high variables
fn arb_shared(n: usize) -> BoxedStrategy<Tt> {
    if n < 3 {
        return arb_tt(n);
    }
    (1..n, vec(any::<u64>(), 2..=4), vec(0u8..12, 1usize << std::cmp::min(n - 1, 6)), any::<u32>())
        .prop_map(move |(k, seeds, sel, salt)| {
            // pool of sub-functions over k low variables (from seeds, by a fixed bit mixer)
            let sub = |s: u64, m: usize| -> bool {
                let z = s ^ ((m as u64).wrapping_mul(0x9e37_79b9_7f4a_7c15));
                ((z ^ (z >> 29) ^ (z >> 13)).count_ones() & 1) != 0
            };
            let low_mask = (1usize << k) - 1;
            Tt::from_fn(n, |m| {
                let hi = m >> k;
                let lo = m & low_mask;
                let s = sel[(hi ^ (salt as usize & 1)) % sel.len()] as usize;
                let p = seeds[s % seeds.len()];
                match s / 4 {
                    0 => sub(p, lo),
                    1 => !sub(p, lo),
                    _ => sub(p, lo) ^ (hi.count_ones() & 1 != 0),
                }
            })
        })
        .boxed()
}

fn arb_member(n: usize) -> BoxedStrategy<Tt> {
    let lit = if n >= 1 {
        (0..n, any::<bool>()).prop_map(move |(i, neg)| Tt::from_fn(n, |m| ((m >> i) & 1 != 0) ^ neg)).boxed()
    } else {
        arb_tt(n)
    };
    let adder = if n >= 2 {
        (0..n).prop_map(move |bit| {
            // bit `bit` of (low half + high half) of the assignment
            let h = n / 2;
            Tt::from_fn(n, |m| {
                let a = m & ((1 << h) - 1);
                let b = m >> h;
                ((a + b) >> bit) & 1 != 0
            })
        }).boxed()
    } else {
        arb_tt(n)
    };
    prop_oneof![5 => arb_tt(n), 5 => arb_shared(n), 1 => lit, 1 => adder].boxed()
}

fn strategy(_t: Tier) -> BoxedStrategy<Case> {
    (arb_fam(), arb_n(0, 11), 0usize..=4)
        .prop_flat_map(|(fam, n, len)| {
            (vec(arb_member(n), len), vec((0usize..4, 0u8..4), len), 0usize..4, 0usize..4, any::<u8>()).prop_map(
                move |(mut fs, rel, rot, dup, neg)| {
                    // some members become a copy / the complement of an earlier member
                    for i in 1..fs.len() {
                        let (j, kind) = rel[i];
                        let j = j % i;
                        match kind {
                            0 => fs[i] = fs[j].clone(),
                            1 => fs[i] = fs[j].not(),
                            _ => {}
                        }
                    }
                    Case { fam, n, fs, rot, dup, neg }
                },
            )
        })
        .boxed()
}

fn lib_count(fam: Fam, n: usize, ts: &[T]) -> usize {
    if ts.is_empty() {
        fam.get().bdd_complexity_empty(n)
    } else {
        let others: Vec<&dyn Tab> = ts[1..].iter().map(|t| t.as_ref()).collect();
        ts[0].bdd_complexity_with(&others)
    }
}

pub fn run(c: &Case) -> Verdict {
    let mut ts: Vec<T> = Vec::new();
    for f in &c.fs {
        match load(c.fam, f) {
            Ok(x) => ts.push(x),
            Err(_) => return pass(false, vec!["skipped:unloadable".into()]),
        }
    }
    let n = c.n;
    let fl = c.fam.label();
    let want = shared_size(&c.fs);
    let got = lib!("bdd_complexity", lib_count(c.fam, n, &ts));
    let show = |fs: &[Tt]| fs.iter().map(|t| t.short()).collect::<Vec<_>>().join(", ");
    ensure!(got == want, "count", "{}::bdd_complexity([{}]) = {} but the shared complement-edge ROBDD (variable {} at the root) has {} non-literal nodes", fl, show(&c.fs), got, n.saturating_sub(1), want);
    if c.fs.is_empty() {
        ensure!(got == 0, "empty", "bdd_complexity of the empty list is {}", got);
    }
    // metamorphic variants: order, duplicates, complemented members
    if !c.fs.is_empty() {
        let len = c.fs.len();
        let mut v: Vec<Tt> = c.fs.clone();
        v.rotate_left(c.rot % len);
        v.push(c.fs[c.dup % len].clone());
        for (i, t) in v.iter_mut().enumerate() {
            if (c.neg >> (i % 8)) & 1 != 0 {
                *t = t.not();
            }
        }
        let mut tv: Vec<T> = Vec::new();
        for f in &v {
            match load(c.fam, f) {
                Ok(x) => tv.push(x),
                Err(_) => return pass(false, vec!["skipped:unloadable".into()]),
            }
        }
        let got2 = lib!("bdd_complexity", lib_count(c.fam, n, &tv));
        ensure!(got2 == want, "variant", "{}::bdd_complexity changes from {} to {} when the list [{}] is reordered / gets a duplicate / has members complemented: [{}]", fl, want, got2, show(&c.fs), show(&v));
    }
    let mut labels = vec![format!("fam:{}", fl), format!("n:{}", n), format!("len:{}", c.fs.len()), format!("size:{}", n_label(n))];
    if c.fs.len() >= 2 {
        let sep: usize = c.fs.iter().map(|f| shared_size(std::slice::from_ref(f))).sum();
        if sep > want {
            labels.push("sharing-between-members".into());
        }
    }
    pass(want >= 2 && n >= 3, labels)
}

// ---------------------------------------------------------------------------------------------
// long lists: many copies / complements of a few base functions (more than 4096 words in total)

#[derive(Clone, Debug, Hash, Serialize, Deserialize)]
pub struct LongCase {
    pub fam: Fam,
    pub n: usize,
    pub base: Vec<Tt>,
    /// (index into base, complemented) for every further member of the list
    pub pattern: Vec<(usize, bool)>,
}

fn strategy_long(_t: Tier) -> BoxedStrategy<LongCase> {
    // total size 4100 .. 9000 words: list length = that many words / words per table
    (arb_fam(), prop_oneof![2 => 8usize..=10, 3 => 11usize..=12, 1 => Just(13usize)], 1usize..=3, 4100usize..=9000)
        .prop_flat_map(|(fam, n, nb, total)| {
            let (fam, n) = if n > fam.max_n() { (Fam::Dyn, n) } else { (fam, n) };
            let len = total / crate::model::words_for(n) + 1;
            (vec(arb_member(n), nb), vec((0usize..3, any::<bool>()), len)).prop_map(move |(base, pattern)| LongCase { fam, n, base, pattern })
        })
        .boxed()
}

fn run_long(c: &LongCase) -> Verdict {
    let n = c.n;
    let mut list: Vec<Tt> = c.base.clone();
    for (i, neg) in &c.pattern {
        let t = &c.base[i % c.base.len()];
        list.push(if *neg { t.not() } else { t.clone() });
    }
    let mut ts: Vec<T> = Vec::new();
    for f in &list {
        match load(c.fam, f) {
            Ok(x) => ts.push(x),
            Err(_) => return pass(false, vec!["skipped:unloadable".into()]),
        }
    }
    // copies and complements add no node to the shared complement-edge diagram
    let want = shared_size(&c.base);
    let got = lib!("bdd_complexity", lib_count(c.fam, n, &ts));
    let show = |fs: &[Tt]| fs.iter().map(|t| t.short()).collect::<Vec<_>>().join(", ");
    ensure!(got == want, "long-list", "{}::bdd_complexity of a list of {} tables of {} variables ({} words) made of copies and complements of [{}] = {} but the shared diagram of the base functions has {} non-literal nodes", c.fam.label(), list.len(), n, list.len() * crate::model::words_for(n), show(&c.base), got, want);
    pass(want >= 2, vec![format!("fam:{}", c.fam.label()), format!("n:{}", n), format!("base:{}", c.base.len())])
}

fn enumerate(t: Tier, shard: usize, nshards: usize, f: &mut dyn FnMut(Case) -> bool) {
    let mut sc = ShardCounter::new(shard, nshards);
    for fam in [Fam::Dyn, Fam::Static] {
        // the empty list, every n
        for n in 0..=11 {
            if sc.mine() && !f(Case { fam, n, fs: vec![], rot: 0, dup: 0, neg: 0 }) {
                return;
            }
        }
        // all single functions
        for n in 0..=t.pick(3usize, 4) {
            let count = 1u64 << (1u32 << n);
            for x in 0..count {
                if !sc.mine() {
                    continue;
                }
                if !f(Case { fam, n, fs: vec![Tt::from_words(n, vec![x])], rot: 0, dup: 0, neg: (x & 1) as u8 }) {
                    return;
                }
            }
        }
        // all pairs
        for n in 0..=t.pick(2usize, 3) {
            let count = 1u64 << (1u32 << n);
            for x in 0..count {
                for y in 0..count {
                    if !sc.mine() {
                        continue;
                    }
                    if !f(Case { fam, n, fs: vec![Tt::from_words(n, vec![x]), Tt::from_words(n, vec![y])], rot: (x & 1) as usize, dup: (y & 1) as usize, neg: ((x ^ y) & 7) as u8 }) {
                        return;
                    }
                }
            }
        }
    }
}

pub fn def() -> PropDef {
    PropDef {
        id: "C07",
        rule: "cases = (family, n in 0..=11, list of 0..=4 functions, variant selector); members come from the table generator, from a `shared` class (a pool of 2-4 sub-functions over the low k variables selected / complemented / xor-ed by the high variables, so that many equal and complementary sub-tables occur at every level), literals, adder bits, and copies / complements of earlier members. Oracle: a textbook unique-table ROBDD with complement edges built by the harness (then-edge regular, variable n-1 at the root), counting reachable nodes except those with two constant children; the library count must equal it, and must not change when the list is rotated, a member duplicated and members complemented; the empty list gives 0. Non-trivial = oracle count >= 2 and n >= 3. Exhaustive part: the empty list for every n, all single functions n<=3 (quick) / n<=4 (thorough), all ordered pairs n<=2 / n<=3.",
        assumptions: vec!["from_blocks()/set_bit() as loading channel"],
        subs: vec![Box::new(Sub {
            name: "count",
            rule: "see property rule",
            strategy,
            cases: (300_000, 3_000_000),
            exhaustive: Some(enumerate),
            exhaustive_note: "empty list all n; all single functions n<=3/4; all ordered pairs n<=2/3; both families",
            run,
        }),
        Box::new(Sub {
            name: "longlist",
            rule: "lists of more than 4096 words in total (4100..9000): 1..3 base functions of n in 8..=13 (13: Lut only) followed by copies and complements of them; the count must equal the reference count of the base functions alone. Non-trivial = reference count >= 2.",
            strategy: strategy_long,
            cases: (300, 6000),
            exhaustive: None,
            exhaustive_note: "",
            run: run_long,
        })],
    }
}
