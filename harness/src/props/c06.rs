//! C06 — top-decomposition and unateness classification is sound and complete.

use proptest::prelude::*;
use serde::{Deserialize, Serialize};

use crate::adapter::Fam;
use crate::common::*;
use crate::engine::*;
use crate::gen::*;
use crate::model::Tt;
use crate::{ensure, lib};

#[derive(Clone, Debug, Hash, Serialize, Deserialize)]
pub struct Case {
    pub fam: Fam,
    pub f: Tt,
    /// the variable on which the structure was planted (all variables are checked anyway)
    pub planted: usize,
}

/// classification by the property's priority chain, on cofactors computed by definition
pub fn classify(f: &Tt, v: usize) -> &'static str {
    let c0 = f.cofactor(v, false);
    let c1 = f.cofactor(v, true);
    if c0 == c1 {
        "Independent"
    } else if c0.is_zero() && c1.is_one() {
        "Identity"
    } else if c0.is_one() && c1.is_zero() {
        "Negation"
    } else if c0.is_zero() {
        "And"
    } else if c1.is_one() {
        "Or"
    } else if c0.is_one() {
        "Le"
    } else if c1.is_zero() {
        "Lt"
    } else if c0 == c1.not() {
        "Xor"
    } else {
        "None"
    }
}

fn planted(n: usize) -> BoxedStrategy<(Tt, usize)> {
    let size = 1usize << n;
    (arb_var(n), 0usize..12, arb_tt(n), arb_tt(n), proptest::collection::vec(0..size, 0..=2))
        .prop_map(move |(v, class, c, d, flips)| {
            let c = c.cofactor(v, false);
            let d = d.cofactor(v, false);
            let z = Tt::zero(n);
            let o = Tt::one(n);
            let (c0, c1) = match class {
                0 => (c.clone(), c.clone()),
                1 => (z, o),
                2 => (o, z),
                3 => (z, c.clone()),
                4 => (c.clone(), o),
                5 => (o, c.clone()),
                6 => (c.clone(), z),
                7 => (c.clone(), c.not()),
                8 => (c.and(&d), c.or(&d)),
                9 => (c.or(&d), c.and(&d)),
                _ => (c.clone(), d.clone()),
            };
            let mut f = Tt::from_cofactors(&c0, &c1, v);
            for m in flips {
                let b = f.get(m);
                f.set(m, !b);
            }
            (f, v)
        })
        .boxed()
}

fn strategy(_t: Tier) -> BoxedStrategy<Case> {
    arb_fam_n(1, 13)
        .prop_flat_map(|(fam, n)| planted(n).prop_map(move |(f, planted)| Case { fam, f, planted }))
        .boxed()
}

pub fn run(c: &Case) -> Verdict {
    let x = match load(c.fam, &c.f) {
        Ok(x) => x,
        Err(_) => return pass(false, vec!["skipped:unloadable".into()]),
    };
    let n = c.f.n;
    let fl = c.fam.label();
    let mut labels = vec![format!("fam:{}", fl), format!("n:{}", n), format!("size:{}", n_label(n))];
    let mut nontrivial = false;
    for v in 0..n {
        let want = classify(&c.f, v);
        let got = lib!("top_decomposition", x.top_decomposition(v));
        ensure!(
            got == want,
            format!("class:{}-as-{}", want, got),
            "{}::top_decomposition({}) of {} = {} but the cofactors c0={} c1={} make it {}",
            fl, v, c.f.short(), got, c.f.cofactor(v, false).short(), c.f.cofactor(v, true).short(), want
        );
        let c0 = c.f.cofactor(v, false);
        let c1 = c.f.cofactor(v, true);
        let pos = lib!("is_pos_unate", x.is_pos_unate(v));
        let neg = lib!("is_neg_unate", x.is_neg_unate(v));
        ensure!(pos == c0.pointwise_le(&c1), "pos_unate", "{}::is_pos_unate({}) of {} = {} but c0 <= c1 pointwise is {}", fl, v, c.f.short(), pos, c0.pointwise_le(&c1));
        ensure!(neg == c1.pointwise_le(&c0), "neg_unate", "{}::is_neg_unate({}) of {} = {} but c1 <= c0 pointwise is {}", fl, v, c.f.short(), neg, c1.pointwise_le(&c0));
        if v == c.planted {
            labels.push(format!("planted:{}", want));
            labels.push(format!("var:{}", if v <= 5 { "in-word" } else { "cross-word" }));
            if pos != neg {
                labels.push("planted:strictly-unate".into());
            }
        }
        if want != "None" && want != "Independent" {
            nontrivial = true;
        }
    }
    pass(nontrivial, labels)
}

fn enumerate(t: Tier, shard: usize, nshards: usize, f: &mut dyn FnMut(Case) -> bool) {
    let max_n = t.pick(3, 4);
    let mut sc = ShardCounter::new(shard, nshards);
    for fam in [Fam::Dyn, Fam::Static] {
        for n in 1..=max_n {
            let count = 1u64 << (1u32 << n);
            for x in 0..count {
                if !sc.mine() {
                    continue;
                }
                if !f(Case { fam, f: Tt::from_words(n, vec![x]), planted: 0 }) {
                    return;
                }
            }
        }
    }
}

pub fn def() -> PropDef {
    PropDef {
        id: "C06",
        rule: "cases = (family, f, planted variable) with n in 1..=12; f is built in the model from cofactors of a chosen class on a chosen variable v (Independent, Identity, Negation, And c0=0, Or c1=1, Le c0=1, Lt c1=0, Xor c0=!c1, positive unate c0<=c1, negative unate, unstructured), the free cofactor coming from the table generator, followed by 0, 1 or 2 single-bit perturbations (a class that holds on all words but one); for every variable of f the library's top_decomposition / is_pos_unate / is_neg_unate are compared with the definition evaluated on cofactors computed assignment by assignment, with the property's priority chain. Non-trivial = some variable has a class other than None/Independent; distinct by (family, f). Exhaustive part: all f and all v for n<=3 (quick) / n<=4 (thorough).",
        assumptions: vec!["from_blocks()/set_bit() as loading channel; the returned DecompositionType is compared through its Debug name"],
        subs: vec![Box::new(Sub {
            name: "classify",
            rule: "see property rule",
            strategy,
            cases: (400_000, 5_000_000),
            exhaustive: Some(enumerate),
            exhaustive_note: "all functions and all variables, n<=3 (quick) / n<=4 (thorough), both families",
            run,
        })],
    }
}
