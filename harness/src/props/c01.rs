//! C01 — logical operators are exact pointwise Boolean operations (all syntactic forms).

use proptest::prelude::*;
use serde::{Deserialize, Serialize};

use crate::adapter::{BinOp, Fam, BIN_FORMS, NOT_FORMS};
use crate::common::*;
use crate::engine::*;
use crate::gen::*;
use crate::model::Tt;
use crate::{ensure, lib};

#[derive(Clone, Debug, Hash, Serialize, Deserialize)]
pub struct Case {
    pub fam: Fam,
    pub a: Tt,
    pub b: Tt,
}

fn strategy(_t: Tier) -> BoxedStrategy<Case> {
    // the dynamic type has no size limit: about one case in 4000 uses 15..=18 variables
    let huge = (15usize..=18).prop_flat_map(|n| (arb_tt(n), arb_tt(n)).prop_map(|(a, b)| Case { fam: Fam::Dyn, a, b }));
    prop_oneof![
        4000 => arb_fam_pair(0, 14).prop_map(|(fam, a, b)| Case { fam, a, b }),
        1 => huge,
    ]
    .boxed()
}

fn run(c: &Case) -> Verdict {
    let (a, b) = match (load(c.fam, &c.a), load(c.fam, &c.b)) {
        (Ok(a), Ok(b)) => (a, b),
        _ => return pass(false, vec!["skipped:unloadable".into()]),
    };
    let n = c.a.n;
    let a_blocks = a.blocks();
    let b_blocks = b.blocks();

    // NOT, four forms
    let want = c.a.not();
    for (f, name) in NOT_FORMS.iter().enumerate() {
        let r = lib!(format!("NOT form `{}`", name), a.not_form(f));
        ensure!(r.n() == n, "not:num_vars", "NOT form `{}` returned {} variables for an input of {}", name, r.n(), n);
        if let Err(e) = same_fn(r.as_ref(), &want) {
            return fail("not:value", format!("NOT form `{}` on {} {}: {}", name, c.fam.label(), c.a.short(), e));
        }
        ensure!(a.blocks() == a_blocks, "not:operand-changed", "NOT form `{}` changed its operand {}", name, c.a.short());
    }

    // AND / OR / XOR, eight forms each
    for (op, opname, want) in [
        (BinOp::And, "AND", c.a.and(&c.b)),
        (BinOp::Or, "OR", c.a.or(&c.b)),
        (BinOp::Xor, "XOR", c.a.xor(&c.b)),
    ] {
        for (f, name) in BIN_FORMS.iter().enumerate() {
            let r = lib!(format!("{} form `{}`", opname, name), a.bin_form(op, f, b.as_ref()));
            ensure!(r.n() == n, "bin:num_vars", "{} form `{}` returned {} variables for inputs of {}", opname, name, r.n(), n);
            if let Err(e) = same_fn(r.as_ref(), &want) {
                return fail(
                    format!("bin:value:{}", opname),
                    format!("{} form `{}` on {} a={} b={}: {}", opname, name, c.fam.label(), c.a.short(), c.b.short(), e),
                );
            }
            ensure!(
                a.blocks() == a_blocks && b.blocks() == b_blocks,
                "bin:operand-changed",
                "{} form `{}` changed a borrowed operand (a={} b={})", opname, name, c.a.short(), c.b.short()
            );
        }
    }

    // fixed-size types keep their words inline: the operands are also placed at different offsets
    // modulo 16 bytes (a kernel working on wider words must not assume a common alignment)
    if c.fam == Fam::Static {
        for (op, opname, want) in [
            (BinOp::And, "AND", c.a.and(&c.b)),
            (BinOp::Or, "OR", c.a.or(&c.b)),
            (BinOp::Xor, "XOR", c.a.xor(&c.b)),
        ] {
            for place in 0..3u8 {
                for (f, name) in BIN_FORMS.iter().enumerate() {
                    let r = lib!(format!("{} form `{}`", opname, name), a.bin_form_placed(op, f, b.as_ref(), place));
                    if let Err(e) = same_fn(r.as_ref(), &want) {
                        return fail(
                            format!("bin:placement:{}", opname),
                            format!("{} form `{}` on LutN a={} b={} with the operands at offsets {} modulo 16 bytes: {}", opname, name, c.a.short(), c.b.short(), ["(0, 8)", "(8, 0)", "(8, 8)"][place as usize], e),
                        );
                    }
                }
            }
        }
    }

    // the same object as both operands (aliasing): x op x through every form
    for (op, opname, want) in [
        (BinOp::And, "AND", c.a.clone()),
        (BinOp::Or, "OR", c.a.clone()),
        (BinOp::Xor, "XOR", c.a.xor(&c.a)),
    ] {
        for (f, name) in BIN_FORMS.iter().enumerate() {
            let r = lib!(format!("{} form `{}` with the same object on both sides", opname, name), a.bin_form(op, f, a.as_ref()));
            if let Err(e) = same_fn(r.as_ref(), &want) {
                return fail(
                    format!("bin:alias:{}", opname),
                    format!("{} form `{}` on {} with the same object {} as both operands: {}", opname, name, c.fam.label(), c.a.short(), e),
                );
            }
            ensure!(a.blocks() == a_blocks, "bin:operand-changed", "{} form `{}` changed its aliased operand {}", opname, name, c.a.short());
        }
    }

    let nontrivial = !c.a.is_const() && !c.b.is_const() && c.b != c.a && c.b != c.a.not();
    let mut labels = base_labels(c.fam, &c.a);
    if c.a.w.len() >= 2 && c.a.w.windows(2).any(|w| w[0] != w[1]) {
        labels.push("multiword-irregular".into());
    }
    pass(nontrivial, labels)
}

fn enumerate(t: Tier, shard: usize, nshards: usize, f: &mut dyn FnMut(Case) -> bool) {
    let max_n = t.pick(3, 3);
    let mut sc = ShardCounter::new(shard, nshards);
    for fam in [Fam::Dyn, Fam::Static] {
        for n in 0..=max_n {
            let count = 1u64 << (1u32 << n);
            for x in 0..count {
                for y in 0..count {
                    if !sc.mine() {
                        continue;
                    }
                    let case = Case {
                        fam,
                        a: Tt::from_words(n, vec![x]),
                        b: Tt::from_words(n, vec![y]),
                    };
                    if !f(case) {
                        return;
                    }
                }
            }
        }
    }
}

pub fn def() -> PropDef {
    PropDef {
        id: "C01",
        rule: "cases = (family, a, b) with a from the table generator (uniform/wordwise/shared-word/sparse/symmetric/expression/constant classes, n in 0..=12 for LutN and 0..=14 for Lut, about one case in 4000 with 15..=18) and b fresh or related to a (equal, complement, 1-2 bits or one word changed); every case runs all 4 NOT forms and all 8 forms of AND, OR, XOR — on (a, b), on (a, a) with the same object passed as both operands, and for LutN with the operands placed at offsets (0,8), (8,0), (8,8) modulo 16 bytes — and compares value(m) for every m with the definition. Non-trivial = a and b non-constant and b not in {a, !a}; distinct by (family, a, b). Exhaustive part: every ordered pair of functions of n <= 3, both families (both tiers).",
        assumptions: vec![
            "value() and from_blocks()/set_bit() are used to load and observe tables; a table that cannot be loaded and read back is skipped (label skipped:unloadable), not reported here",
            "bits above 2^n in blocks() are deliberately not inspected (that is C02)",
        ],
        subs: vec![Box::new(Sub {
            name: "ops",
            rule: "see property rule",
            strategy,
            cases: (160_000, 4_000_000),
            exhaustive: Some(enumerate),
            exhaustive_note: "all ordered pairs (a,b) of functions of n<=3, Lut and LutN, 28 forms each",
            run,
        })],
    }
}
