//! C09 — text forms are exact and fixed-width; parsing accepts exactly well-formed input.

use proptest::prelude::*;
use serde::{Deserialize, Serialize};

use crate::adapter::Fam;
use crate::common::*;
use crate::engine::*;
use crate::gen::*;
use crate::model::Tt;
use crate::{ensure, lib};

// ---------------------------------------------------------------------------------------------
// printing

#[derive(Clone, Debug, Hash, Serialize, Deserialize)]
pub struct PrintCase {
    pub fam: Fam,
    pub t: Tt,
}

fn strategy_print(_t: Tier) -> BoxedStrategy<PrintCase> {
    // the dynamic type has no size limit: about one case in 1500 prints a table of 15..=17 variables
    prop_oneof![
        1500 => arb_fam_tt(0, 14).prop_map(|(fam, t)| PrintCase { fam, t }),
        1 => (15usize..=17).prop_flat_map(|n| arb_tt(n).prop_map(|t| PrintCase { fam: Fam::Dyn, t })),
    ]
    .boxed()
}

fn run_print(c: &PrintCase) -> Verdict {
    let x = match load(c.fam, &c.t) {
        Ok(x) => x,
        Err(_) => return pass(false, vec!["skipped:unloadable".into()]),
    };
    let fl = c.fam.label();
    let n = c.t.n;
    let hex = c.t.to_hex();
    let bin = c.t.to_bin();
    let got = lib!("to_hex_string", x.to_hex());
    ensure!(got == hex, "to_hex", "{}::to_hex_string of the table with bits {:x?} (n={}) = {:?}, expected {:?}", fl, c.t.w, n, got, hex);
    let got = lib!("to_bin_string", x.to_bin());
    ensure!(got == bin, "to_bin", "{}::to_bin_string (n={}) = {:?}, expected {:?}", fl, n, got, bin);
    let got = lib!("Display", x.fmt_display());
    ensure!(got == format!("Lut{}({})", n, hex), "display", "{} Display = {:?}, expected Lut{}({})", fl, got, n, hex);
    let got = lib!("LowerHex", x.fmt_lower_hex());
    ensure!(got == format!("Lut{}({})", n, hex), "lowerhex", "{} {{:x}} = {:?}, expected Lut{}({})", fl, got, n, hex);
    let got = lib!("Binary", x.fmt_binary());
    ensure!(got == format!("Lut{}({})", n, bin), "binary", "{} {{:b}} = {:?}, expected Lut{}({})", fl, got, n, bin);
    // the formatting traits under other format specifications: whatever is done with width,
    // alignment, `#` or `+`, what is printed (space padding aside) is still Lut<n>(digits)
    for (kind, base) in [(0usize, &hex), (1, &bin), (2, &hex), (3, &hex), (4, &hex), (5, &bin), (7, &hex)] {
        let spec = crate::adapter::FMT_SPECS[kind];
        let got = lib!(format!("formatting with `{}`", spec), x.fmt_spec(kind));
        let want = format!("Lut{}({})", n, base);
        ensure!(got.trim_matches(' ') == want, "format-spec", "{} formatted with `{}` = {:?}, expected {} (space padding allowed)", fl, spec, got, want);
    }
    // parsing the printed table gives it back
    let back = lib!("from_hex_string", c.fam.get().from_hex(n, &hex));
    match back {
        Err(()) => return fail("roundtrip:err", format!("{}::from_hex_string({}, {:?}) rejects a printed table", fl, n, hex)),
        Ok(y) => {
            if let Err(e) = same_fn(y.as_ref(), &c.t) {
                return fail("roundtrip:value", format!("{}::from_hex_string({}, {:?}): {}", fl, n, hex, e));
            }
        }
    }
    pass(!c.t.is_const(), base_labels(c.fam, &c.t))
}

fn enumerate_print(t: Tier, shard: usize, nshards: usize, f: &mut dyn FnMut(PrintCase) -> bool) {
    let mut sc = ShardCounter::new(shard, nshards);
    for fam in [Fam::Dyn, Fam::Static] {
        for n in 0..=t.pick(3usize, 4) {
            let count = 1u64 << (1u32 << n);
            for x in 0..count {
                if sc.mine() && !f(PrintCase { fam, t: Tt::from_words(n, vec![x]) }) {
                    return;
                }
            }
        }
    }
}

// ---------------------------------------------------------------------------------------------
// parsing

#[derive(Clone, Debug, Hash, Serialize, Deserialize)]
pub struct ParseCase {
    pub fam: Fam,
    pub n: usize,
    pub s: String,
}

fn strategy_parse(_t: Tier) -> BoxedStrategy<ParseCase> {
    arb_fam_n(0, 13)
        .prop_flat_map(|(fam, n)| arb_hex_input(n).prop_map(move |s| ParseCase { fam, n, s }))
        .boxed()
}

/// the accept set of the property, and the denoted function
pub fn denote(n: usize, s: &str) -> (Option<Tt>, bool /* contains upper case */) {
    let upper = s.bytes().any(|b| b.is_ascii_uppercase());
    if s.chars().count() != s.len() {
        return (None, upper); // non-ASCII
    }
    (Tt::from_hex(n, s), upper)
}

pub fn run_parse(c: &ParseCase) -> Verdict {
    let fl = c.fam.label();
    let n = c.n;
    let (want, upper) = denote(n, &c.s);
    let got = match guard(|| c.fam.get().from_hex(n, &c.s)) {
        Ok(r) => r,
        Err(p) => return fail("parse:panic", format!("{}::from_hex_string({}, {:?}) panicked: {}", fl, n, c.s, p)),
    };
    let width = Tt::hex_width(n);
    let len = c.s.chars().count();
    let mut labels = vec![format!("fam:{}", fl), format!("n:{}", n), format!("size:{}", n_label(n))];
    match (&want, &got) {
        (Some(t), Ok(y)) => {
            if let Err(e) = same_fn(y.as_ref(), t) {
                return fail("parse:wrong-value", format!("{}::from_hex_string({}, {:?}): {}", fl, n, c.s, e));
            }
            labels.push(if upper { "accepted:upper-case".into() } else { "accepted".into() });
        }
        (Some(_), Err(())) => {
            // only strings with upper-case digits may be rejected
            ensure!(upper, "parse:rejects-valid", "{}::from_hex_string({}, {:?}) = Err for a well-formed string", fl, n, c.s);
            labels.push("rejected:upper-case".into());
        }
        (None, Ok(y)) => {
            let why = if len != width {
                "wrong length"
            } else if !c.s.is_ascii() {
                "non-ASCII text"
            } else if c.s.bytes().all(|b| b.is_ascii_hexdigit()) {
                "digit too large for the table"
            } else if c.s.contains('+') || c.s.contains('-') {
                "sign character"
            } else {
                "non-hex character"
            };
            return fail(
                format!("parse:accepts-invalid:{}", why.replace(' ', "-")),
                format!("{}::from_hex_string({}, {:?}) = Ok(blocks {:x?}) but the string is not {} hex digits fitting 2^{} bits ({})", fl, n, c.s, y.blocks(), width, n, why),
            );
        }
        (None, Err(())) => {
            labels.push(format!(
                "rejected:{}",
                if !c.s.is_ascii() && c.s.len() == width { "non-ascii-with-the-right-byte-length" } else if len != width { "length" } else if !c.s.is_ascii() { "non-ascii" } else if c.s.bytes().all(|b| b.is_ascii_hexdigit()) { "too-large" } else { "bad-char" }
            ));
        }
    }
    // non-trivial: one edit away from an accepted string (same length with one bad char, or length +-1)
    let near = (len == width && want.is_none()) || (len + 1 == width) || (len == width + 1) || want.is_some() && !c.s.bytes().all(|b| b == b'0');
    pass(near, labels)
}

const ALPHABET: [char; 20] = ['0', '1', '2', '7', '8', '9', 'a', 'f', 'A', 'F', 'g', 'G', 'x', '+', '-', ' ', '\0', 'é', '€', '😀'];

fn enumerate_parse(t: Tier, shard: usize, nshards: usize, f: &mut dyn FnMut(ParseCase) -> bool) {
    let mut sc = ShardCounter::new(shard, nshards);
    for fam in [Fam::Dyn, Fam::Static] {
        // n < 2: every single ASCII byte as a one-character string, and every hex digit
        for n in 0..=2usize {
            for b in 0u8..128 {
                if sc.mine() && !f(ParseCase { fam, n, s: (b as char).to_string() }) {
                    return;
                }
            }
        }
        // the library's own prints (and other wrappings) of every small table: all outside the accept set
        for n in 0..=3usize {
            for v in 0u64..(1u64 << (1usize << n)) {
                let tt = Tt::from_words(n, vec![v]);
                for k in 0..crate::gen::WRAPPED_FORMS {
                    if sc.mine() && !f(ParseCase { fam, n, s: crate::gen::wrapped_form(n, &tt, k) }) {
                        return;
                    }
                }
            }
        }
        for n in 0..=t.pick(3usize, 4) {
            let width = Tt::hex_width(n);
            for len in 0..=width + 1 {
                let total = 20usize.pow(len as u32);
                for k in 0..total {
                    if !sc.mine() {
                        continue;
                    }
                    let mut s = String::new();
                    let mut r = k;
                    for _ in 0..len {
                        s.push(ALPHABET[r % 20]);
                        r /= 20;
                    }
                    if !f(ParseCase { fam, n, s }) {
                        return;
                    }
                }
            }
        }
    }
}

pub fn def() -> PropDef {
    PropDef {
        id: "C09",
        rule: "print: cases = (family, table) n in 0..=12/14 (about one Lut in 1500 has 15..=17 variables); to_hex_string / to_bin_string / Display / {:x} / {:b} are compared with the harness formatter written from the definition (most significant first, width max(1,2^n/4) resp. 2^n, lower case, `Lut<n>(...)`), the formatting traits under the specifications {:#x}, {:#b}, {:#}, {:>40}, {:<40x}, {:^80b}, {:+} must still print exactly that (space padding aside); and parsing the print must give the table back; exhaustive for n<=3 (quick) / n<=4 (thorough). parse: cases = (family, n in 0..=12, string): the print of a generated table with 0, 1 or 2 structured corruptions (replace / insert / delete / append / prepend a character from {+,-,space,g,x,G,X,_,NUL,newline,A-F,multi-byte UTF-8 incl. full-width digits} or a hex digit, at a position weighted towards multiples of 16 and both ends; upper-casing; truncation), random digit strings of the right width, and arbitrary short text. Oracle: the accept set is exactly `width` characters, all ASCII hex digits, value < 2^(2^n); inside it the result must be Ok and denote that number (strings containing upper-case digits may also be rejected); outside it the result must be Err; never a panic. Exhaustive: every 1-character ASCII string for n<=2 and every string over a 20-symbol alphabet {0,1,2,7,8,9,a,f,A,F,g,G,x,+,-,space,NUL,e-acute,euro,emoji} of length <= width+1 for n<=3 (quick) / n<=4 (thorough). Non-trivial = a string within one edit of an accepted one, or an accepted non-zero one.",
        assumptions: vec![
            "value() is the observation of a parsed table; whether an Ok table has stray bits is checked as `digit too large` through the accept set (and structurally in C02)",
            "upper-case hex digits may be accepted or rejected, as the property allows",
        ],
        subs: vec![
            Box::new(Sub {
                name: "print",
                rule: "see property rule",
                strategy: strategy_print,
                cases: (150_000, 2_000_000),
                exhaustive: Some(enumerate_print),
                exhaustive_note: "all functions n<=3 (quick) / n<=4 (thorough), both families",
                run: run_print,
            }),
            Box::new(Sub {
                name: "parse",
                rule: "see property rule",
                strategy: strategy_parse,
                cases: (600_000, 8_000_000),
                exhaustive: Some(enumerate_parse),
                exhaustive_note: "all 1-char ASCII strings n<=2; all strings over the 20-symbol alphabet with length <= width+1 for n<=3 (quick) / n<=4 (thorough)",
                run: run_parse,
            }),
        ],
    }
}
