//! C08 — ordering is numeric order of the table; all_functions enumerates it fully.

use std::cmp::Ordering;

use proptest::collection::vec;
use proptest::prelude::*;
use serde::{Deserialize, Serialize};

use crate::adapter::{Fam, T};
use crate::common::*;
use crate::engine::*;
use crate::gen::*;
use crate::model::{words_for, Tt};
use crate::{ensure, lib};

// ---------------------------------------------------------------------------------------------
// order

#[derive(Clone, Debug, Hash, Serialize, Deserialize)]
pub struct OrdCase {
    pub fam: Fam,
    pub ts: Vec<Tt>,
}

/// b related to a so that word-wise (or bit-wise) comparisons at different positions disagree
fn arb_opposed(a: &Tt) -> BoxedStrategy<Tt> {
    let n = a.n;
    let size = a.size();
    let a0 = a.clone();
    if size < 2 {
        return arb_related(a);
    }
    let words = words_for(n);
    let a1 = a.clone();
    let bitwise = (0..size, 0..size).prop_map(move |(p, q)| {
        let (hi, lo) = (std::cmp::max(p, q), std::cmp::min(p, q));
        let mut b = a0.clone();
        if hi != lo {
            // make b smaller at the high position and larger at the low one (or the reverse)
            let v = a0.get(hi);
            b.set(hi, !v);
            b.set(lo, v);
        }
        b
    });
    if words < 2 {
        return bitwise.boxed();
    }
    let wordwise = (0..words, 0..words, any::<u64>()).prop_map(move |(p, q, d)| {
        let (hi, lo) = (std::cmp::max(p, q), std::cmp::min(p, q));
        let mut b = a1.clone();
        if hi != lo {
            let d = d | 1;
            if a1.w[hi] >= d {
                b.w[hi] = a1.w[hi] - d;
                b.w[lo] = a1.w[lo].saturating_add(d);
            } else {
                b.w[hi] = a1.w[hi].saturating_add(d);
                b.w[lo] = a1.w[lo].saturating_sub(d);
            }
        }
        b
    });
    prop_oneof![bitwise, wordwise].boxed()
}

fn strategy_ord(_t: Tier) -> BoxedStrategy<OrdCase> {
    arb_fam_n(0, 13)
        .prop_flat_map(|(fam, n)| {
            arb_tt(n).prop_flat_map(move |a| {
                let a0 = a.clone();
                // adjacent numbers (a+1, a-1: differences that ripple across word boundaries)
                let (up, _) = a.succ();
                let down = {
                    let mut t = a.clone();
                    let mut m = 0;
                    while m < t.size() && !t.get(m) {
                        t.set(m, true);
                        m += 1;
                    }
                    if m < t.size() {
                        t.set(m, false);
                    }
                    t
                };
                let second = prop_oneof![4 => arb_opposed(&a), 4 => arb_related(&a), 1 => Just(up), 1 => Just(down)];
                let other_n: BoxedStrategy<Vec<Tt>> = if fam == Fam::Dyn {
                    // tables of other sizes (dynamic family only); often with the same low block
                    let a2 = a.clone();
                    vec(
                        (0usize..=13).prop_flat_map(move |n2| {
                            let a3 = a2.clone();
                            prop_oneof![arb_tt(n2), Just(Tt::from_words(n2, a3.w.clone()))]
                        }),
                        0..=2,
                    )
                    .boxed()
                } else {
                    Just(vec![]).boxed()
                };
                (second, arb_related(&a), vec(arb_tt(n), 0..=3), other_n).prop_map(move |(b, c, more, other)| {
                    let mut ts = vec![a0.clone(), b, c];
                    ts.extend(more);
                    ts.extend(other);
                    OrdCase { fam, ts }
                })
            })
        })
        .boxed()
}

fn run_ord(c: &OrdCase) -> Verdict {
    let mut xs: Vec<T> = Vec::new();
    for t in &c.ts {
        match load(c.fam, t) {
            Ok(x) => xs.push(x),
            Err(_) => return pass(false, vec!["skipped:unloadable".into()]),
        }
    }
    let fl = c.fam.label();
    let mut nontrivial = false;
    let mut labels = vec![format!("fam:{}", fl), format!("n:{}", c.ts[0].n)];
    for i in 0..xs.len() {
        for j in 0..xs.len() {
            let (a, b) = (&c.ts[i], &c.ts[j]);
            let want = a.cmp_num(b);
            let got = lib!("cmp", xs[i].cmp_(xs[j].as_ref()));
            ensure!(
                got == want,
                if a.n != b.n { "cmp:sizes" } else { "cmp" },
                "{}: cmp({}, {}) = {:?} but as numbers (bit of the all-ones assignment most significant, size first) it is {:?}",
                fl, a.short(), b.short(), got, want
            );
            let pc = lib!("partial_cmp", xs[i].partial_cmp_(xs[j].as_ref()));
            ensure!(pc == Some(want), "partial_cmp", "{}: partial_cmp({}, {}) = {:?}, expected Some({:?})", fl, a.short(), b.short(), pc, want);
            let (l, le, g, ge) = lib!("comparison operators", xs[i].rel_(xs[j].as_ref()));
            ensure!(
                l == (want == Ordering::Less) && le == (want != Ordering::Greater) && g == (want == Ordering::Greater) && ge == (want != Ordering::Less),
                "rel", "{}: (<,<=,>,>=) of ({}, {}) = {:?} but the order is {:?}", fl, a.short(), b.short(), (l, le, g, ge), want
            );
            let eq = lib!("==", xs[i].eq_(xs[j].as_ref()));
            ensure!(eq == (want == Ordering::Equal), "eq-vs-order", "{}: {} == {} is {} but cmp-equality should be {}", fl, a.short(), b.short(), eq, want == Ordering::Equal);
            // antisymmetry
            let rev = lib!("cmp", xs[j].cmp_(xs[i].as_ref()));
            ensure!(rev == got.reverse(), "antisymmetry", "{}: cmp({}, {}) = {:?} but cmp in the other direction = {:?}", fl, a.short(), b.short(), got, rev);
            // fixed-width hex strings order like the tables (same size)
            if a.n == b.n {
                let (ha, hb) = (lib!("to_hex_string", xs[i].to_hex()), lib!("to_hex_string", xs[j].to_hex()));
                if ha.len() == hb.len() && ha.len() == Tt::hex_width(a.n) {
                    ensure!(ha.cmp(&hb) == got, "hex-order", "{}: hex strings {} / {} order {:?} but cmp says {:?}", fl, ha, hb, ha.cmp(&hb), got);
                }
                // opposite word-wise (bit-wise) order at different positions
                if want != Ordering::Equal {
                    let mut dirs = (false, false);
                    if a.w.len() >= 2 {
                        for k in 0..a.w.len() {
                            if a.w[k] < b.w[k] { dirs.0 = true; }
                            if a.w[k] > b.w[k] { dirs.1 = true; }
                        }
                    } else {
                        let d = a.w[0] ^ b.w[0];
                        if d.count_ones() >= 2 && (a.w[0] & d) != 0 && (b.w[0] & d) != 0 { dirs = (true, true); }
                    }
                    if dirs.0 && dirs.1 {
                        nontrivial = true;
                        labels.push("opposed-positions".into());
                    }
                }
            } else {
                nontrivial = true;
                labels.push("different-sizes".into());
            }
        }
    }
    // transitivity on all triples (direct statement, independent of the oracle)
    for i in 0..xs.len() {
        for j in 0..xs.len() {
            for k in 0..xs.len() {
                let (ab, bc, ac) = (xs[i].cmp_(xs[j].as_ref()), xs[j].cmp_(xs[k].as_ref()), xs[i].cmp_(xs[k].as_ref()));
                if ab != Ordering::Greater && bc != Ordering::Greater {
                    ensure!(ac != Ordering::Greater, "transitivity", "{}: a<=b and b<=c but a>c for a={} b={} c={}", fl, c.ts[i].short(), c.ts[j].short(), c.ts[k].short());
                }
            }
        }
    }
    // sort() agrees with sorting by the oracle
    let mut order: Vec<usize> = (0..xs.len()).collect();
    let r = guard(|| {
        order.sort_by(|p, q| xs[*p].cmp_(xs[*q].as_ref()));
        order
    });
    let order = match r {
        Ok(o) => o,
        Err(p) => return fail("panic:sort", format!("sorting panicked: {}", p)),
    };
    for w in order.windows(2) {
        ensure!(c.ts[w[0]].cmp_num(&c.ts[w[1]]) != Ordering::Greater, "sort", "{}: sorting by cmp puts {} before {}", fl, c.ts[w[0]].short(), c.ts[w[1]].short());
    }
    pass(nontrivial, labels)
}

fn enumerate_ord(t: Tier, shard: usize, nshards: usize, f: &mut dyn FnMut(OrdCase) -> bool) {
    let max_n = t.pick(2, 3);
    let mut sc = ShardCounter::new(shard, nshards);
    for fam in [Fam::Dyn, Fam::Static] {
        for n in 0..=max_n {
            let count = 1u64 << (1u32 << n);
            for x in 0..count {
                for y in 0..count {
                    if !sc.mine() {
                        continue;
                    }
                    if !f(OrdCase { fam, ts: vec![Tt::from_words(n, vec![x]), Tt::from_words(n, vec![y])] }) {
                        return;
                    }
                }
            }
        }
    }
}

// ---------------------------------------------------------------------------------------------
// complete iterator runs

#[derive(Clone, Debug, Hash, Serialize, Deserialize)]
pub struct IterCase {
    pub fam: Fam,
    pub n: usize,
}

pub const CONSUME: [&str; 6] = ["count()/last()", "fold", "for_each", "collect", "filter().count()/max()", "by_ref().take(3) then count()/skip().last()"];

/// number of steps from t to the all-ones table, when at most `limit`
fn dist_to_top(t: &Tt, limit: u64) -> Option<u64> {
    let size = 1u64 << t.n;
    let mask = if t.n >= 6 { !0u64 } else { (1u64 << size) - 1 };
    if t.w.iter().skip(1).any(|w| *w != !0) {
        return None;
    }
    let d = (t.w[0] & mask) ^ mask;
    if d <= limit {
        Some(d)
    } else {
        None
    }
}

fn run_iter(c: &IterCase) -> Verdict {
    let f = c.fam.get();
    let n = c.n;
    let total: u64 = 1u64 << (1u32 << n);
    let r = guard(|| -> Result<(), Fail> {
        let mut it = f.all_functions(n);
        let mut expect = Tt::zero(n);
        let mut prev: Option<T> = None;
        let mut count = 0u64;
        loop {
            let item = match it.next() {
                Some(x) => x,
                None => break,
            };
            count += 1;
            if count > total {
                return Err(Fail { sig: "iter:too-many".into(), msg: format!("all_functions({}) yields more than {} items", n, total) });
            }
            if let Err(e) = same_fn(item.as_ref(), &expect) {
                return Err(Fail { sig: "iter:successor".into(), msg: format!("{}::all_functions({}): item #{} should be {}: {}", c.fam.label(), n, count - 1, expect.short(), e) });
            }
            if let Some(p) = &prev {
                if p.cmp_(item.as_ref()) != Ordering::Less {
                    return Err(Fail { sig: "iter:not-increasing".into(), msg: format!("all_functions({}): item #{} is not greater than its predecessor under cmp", n, count - 1) });
                }
            }
            prev = Some(item);
            let (s, wrapped) = expect.succ();
            expect = s;
            if wrapped && count != total {
                return Err(Fail { sig: "harness".into(), msg: "harness bug: model wrapped early".into() });
            }
        }
        if count != total {
            return Err(Fail { sig: "iter:count".into(), msg: format!("{}::all_functions({}) yields {} items, expected 2^(2^n) = {}", c.fam.label(), n, count, total) });
        }
        if it.next().is_some() || it.next().is_some() {
            return Err(Fail { sig: "iter:restarts".into(), msg: format!("all_functions({}) yields items again after returning None", n) });
        }
        // the same complete run through the consuming adaptors of the library's iterator type
        for kind in 0..6u8 {
            let (cnt, last) = f.all_functions_consume(n, kind);
            if cnt as u64 != total {
                return Err(Fail { sig: "iter:consume-count".into(), msg: format!("{}::all_functions({}) consumed through {} yields {} items, expected {}", c.fam.label(), n, CONSUME[kind as usize], cnt, total) });
            }
            match last {
                Some(l) if same_fn(l.as_ref(), &Tt::one(n)).is_ok() => {}
                other => return Err(Fail { sig: "iter:consume-last".into(), msg: format!("{}::all_functions({}) consumed through {}: last/max item is {:?}, expected the all-ones table", c.fam.label(), n, CONSUME[kind as usize], other.map(|t| to_model(t.as_ref()).short())) }),
            }
        }
        Ok(())
    });
    match r {
        Err(p) => fail("panic:all_functions", format!("all_functions({}) panicked: {}", n, p)),
        Ok(Err(f)) => Err(f),
        Ok(Ok(())) => pass(n >= 1, vec![format!("fam:{}", c.fam.label()), format!("n:{}", n)]),
    }
}

fn strategy_iter(_t: Tier) -> BoxedStrategy<IterCase> {
    (arb_fam(), 0usize..=3).prop_map(|(fam, n)| IterCase { fam, n }).boxed()
}

fn enumerate_iter(t: Tier, shard: usize, nshards: usize, f: &mut dyn FnMut(IterCase) -> bool) {
    let mut sc = ShardCounter::new(shard, nshards);
    for fam in [Fam::Dyn, Fam::Static] {
        for n in 0..=t.pick(3usize, 4) {
            if sc.mine() && !f(IterCase { fam, n }) {
                return;
            }
        }
    }
}

// ---------------------------------------------------------------------------------------------
// successor steps from arbitrary tables (hook)

#[derive(Clone, Debug, Hash, Serialize, Deserialize)]
pub struct SuccCase {
    pub fam: Fam,
    pub t: Tt,
    /// how many items to pull from the iterator started at t
    pub pull: usize,
}

fn arb_succ_tt(n: usize) -> BoxedStrategy<Tt> {
    let words = words_for(n);
    let size = 1usize << n;
    // low k positions all ones (k bits for single-word tables, k words otherwise)
    let low_ones = (arb_tt(n), 0..=size).prop_map(move |(mut t, k)| {
        for m in 0..k {
            t.set(m, true);
        }
        t
    });
    let low_words = (arb_tt(n), 0..=words).prop_map(move |(mut t, k)| {
        for w in 0..k {
            t.w[w] = !0;
        }
        Tt::from_words(n, t.w)
    });
    // within 300 steps of the top (so that the iterator terminates soon)
    let near_top = (0u64..300).prop_map(move |d| {
        let mut t = Tt::one(n);
        // subtract d from the all-ones number
        let mut borrow = d;
        for w in 0..t.w.len() {
            let (v, b) = t.w[w].overflowing_sub(borrow);
            t.w[w] = v;
            borrow = b as u64;
            if borrow == 0 {
                break;
            }
        }
        if n < 6 {
            // d may exceed the table range for tiny n: reduce modulo 2^(2^n)
            t = Tt::from_words(n, t.w);
        }
        t
    });
    // all ones except one or two words (runs of all-ones words above and below a non-full word)
    let ones_except = (vec((0..words, arb_tt(n)), 1..=2), any::<bool>()).prop_map(move |(holes, zero)| {
        let mut t = Tt::one(n);
        for (k, src) in holes {
            t.w[k] = if zero { 0 } else { src.w[k] };
        }
        Tt::from_words(n, t.w)
    });
    prop_oneof![3 => low_ones, 3 => low_words, 3 => near_top, 3 => ones_except, 2 => arb_tt(n)].boxed()
}

fn strategy_succ(_t: Tier) -> BoxedStrategy<SuccCase> {
    arb_fam_n(0, 13)
        .prop_flat_map(|(fam, n)| (arb_succ_tt(n), 0usize..=320).prop_map(move |(t, pull)| SuccCase { fam, t, pull }))
        .boxed()
}

fn run_succ(c: &SuccCase) -> Verdict {
    let x = match load(c.fam, &c.t) {
        Ok(x) => x,
        Err(_) => return pass(false, vec!["skipped:unloadable".into()]),
    };
    let fl = c.fam.label();
    let n = c.t.n;
    let (want, wrapped) = c.t.succ();
    let mut y = x.dup();
    let ok = lib!("successor step (hook)", y.successor());
    if let Err(e) = same_fn(y.as_ref(), &want) {
        return fail("succ:value", format!("{}: successor of {} should be {}: {}", fl, c.t.short(), want.short(), e));
    }
    if !wrapped {
        // strictly increasing under the library's own order, also across a word carry
        let o = lib!("cmp", x.cmp_(y.as_ref()));
        ensure!(o == Ordering::Less, "succ:not-greater", "{}: cmp({}, its successor {}) = {:?}, expected Less", fl, c.t.short(), want.short(), o);
        let o2 = lib!("cmp", y.cmp_(x.as_ref()));
        ensure!(o2 == Ordering::Greater && !lib!("==", x.eq_(y.as_ref())), "succ:not-greater", "{}: the successor of {} does not compare greater / unequal", fl, c.t.short());
    }
    ensure!(ok == !wrapped, "succ:flag", "{}: successor of {} reports continue={} but wrap-around is {}", fl, c.t.short(), ok, wrapped);
    // iterator started at t: yields t, t+1, ... up to all-ones, then None
    let mut expect = c.t.clone();
    let mut carried = false;
    let r = guard(|| -> Result<usize, Fail> {
        let mut it = x.iter_from();
        let mut pulled = 0usize;
        let mut ended = false;
        while pulled < c.pull {
            match it.next() {
                None => {
                    ended = true;
                    break;
                }
                Some(item) => {
                    if ended {
                        unreachable!();
                    }
                    if let Err(e) = same_fn(item.as_ref(), &expect) {
                        return Err(Fail { sig: "iter-from:successor".into(), msg: format!("{}: iterator started at {}: item #{} should be {}: {}", fl, c.t.short(), pulled, expect.short(), e) });
                    }
                    pulled += 1;
                    let (s, w) = expect.succ();
                    if w {
                        // expect was all ones: the iterator must stop now
                        if it.next().is_some() {
                            return Err(Fail { sig: "iter-from:no-stop".into(), msg: format!("{}: iterator started at {} continues after the all-ones table", fl, c.t.short()) });
                        }
                        if it.next().is_some() {
                            return Err(Fail { sig: "iter-from:restarts".into(), msg: format!("{}: iterator yields again after None", fl) });
                        }
                        return Ok(pulled);
                    }
                    // did this step carry across a word boundary?
                    if s.w.len() >= 2 && expect.w[0] == !0 {
                        carried = true;
                    }
                    expect = s;
                }
            }
        }
        if ended {
            return Err(Fail { sig: "iter-from:early-stop".into(), msg: format!("{}: iterator started at {} stops after {} items, before reaching the all-ones table (next expected {})", fl, c.t.short(), pulled, expect.short()) });
        }
        Ok(pulled)
    });
    let pulled = match r {
        Err(p) => return fail("panic:iterator", format!("{}: iterating from {} panicked: {}", fl, c.t.short(), p)),
        Ok(Err(f)) => return Err(f),
        Ok(Ok(p)) => p,
    };
    // iterator adaptors must agree with repeated next(): nth(k), skip(k), step_by(s), from the
    // same arbitrary starting table (k small, so that word boundaries are crossed when the low
    // word of t is close to all ones)
    let k = c.pull % 67;
    let advance = |t: &Tt, steps: usize| -> Option<Tt> {
        let mut e = t.clone();
        for _ in 0..steps {
            let (s, w) = e.succ();
            if w {
                return None;
            }
            e = s;
        }
        Some(e)
    };
    let want_k = advance(&c.t, k);
    let got_nth = match guard(|| x.iter_adaptor(0, k, 0).remove(0).map(|i| to_model(i.as_ref()))) {
        Ok(v) => v,
        Err(p) => return fail("panic:iterator", format!("{}: nth({}) from {} panicked: {}", fl, k, c.t.short(), p)),
    };
    ensure!(got_nth == want_k, "iter-from:nth", "{}: iterator started at {}: nth({}) = {:?} but {} calls of next() give {:?}", fl, c.t.short(), k, got_nth.as_ref().map(|t| t.short()), k + 1, want_k.as_ref().map(|t| t.short()));
    let got_skip = lib!("skip", x.iter_adaptor(1, k, 0).remove(0).map(|i| to_model(i.as_ref())));
    ensure!(got_skip == want_k, "iter-from:skip", "{}: iterator started at {}: skip({}).next() = {:?}, expected {:?}", fl, c.t.short(), k, got_skip.as_ref().map(|t| t.short()), want_k.as_ref().map(|t| t.short()));
    let step = 1 + k % 9;
    let got_steps: Vec<Option<Tt>> = lib!("step_by", x.iter_adaptor(2, 0, step).into_iter().map(|o| o.map(|i| to_model(i.as_ref()))).collect());
    for (j, g) in got_steps.iter().enumerate() {
        let w = advance(&c.t, j * step);
        ensure!(*g == w, "iter-from:step_by", "{}: iterator started at {}: item {} of step_by({}) = {:?}, expected {:?}", fl, c.t.short(), j, step, g.as_ref().map(|t| t.short()), w.as_ref().map(|t| t.short()));
    }
    // two successive nth calls on one iterator (a skip after a skip)
    let got2 = lib!("nth twice", {
        let mut v = x.iter_adaptor(3, k, step).into_iter().map(|o| o.map(|i| to_model(i.as_ref())));
        (v.next().flatten(), v.next().flatten())
    });
    ensure!(got2.0 == want_k && got2.1 == want_k.as_ref().and_then(|t| advance(t, step + 1)), "iter-from:nth-twice", "{}: iterator started at {}: nth({}) then nth({}) = {:?}", fl, c.t.short(), k, step, (got2.0.as_ref().map(|t| t.short()), got2.1.as_ref().map(|t| t.short())));
    // jumps of at least the number of remaining items (also several times the whole function
    // space for small n): None, and nothing afterwards
    let remaining = dist_to_top(&c.t, 1 << 20);
    let mut consumed = false;
    if let Some(d) = remaining {
        let rem = d as usize + 1;
        for jump in [rem, rem + 1, 2 * rem + 3, rem + 255, 4 * rem + 1024, rem + (1usize << 16) * (1 + c.pull % 3)] {
            let got = lib!("nth beyond the end", x.iter_adaptor(3, jump, 0).into_iter().map(|o| o.map(|i| to_model(i.as_ref()))).collect::<Vec<_>>());
            ensure!(got.iter().all(|g| g.is_none()), "iter-from:nth-beyond-end", "{}: iterator started at {} ({} items remain): nth({}) then nth(0) = {:?}, expected None twice", fl, c.t.short(), rem, jump, got.iter().map(|g| g.as_ref().map(|t| t.short())).collect::<Vec<_>>());
            let got = lib!("skip beyond the end", x.iter_adaptor(1, jump, 0).remove(0).map(|i| to_model(i.as_ref())));
            ensure!(got.is_none(), "iter-from:skip-beyond-end", "{}: iterator started at {} ({} items remain): skip({}).next() = {:?}", fl, c.t.short(), rem, jump, got.as_ref().map(|t| t.short()));
        }
        // in-range jump to the very last item
        let got = lib!("nth to the last item", x.iter_adaptor(0, rem - 1, 0).remove(0).map(|i| to_model(i.as_ref())));
        ensure!(got == Some(Tt::one(n)), "iter-from:nth-last", "{}: iterator started at {} ({} items remain): nth({}) = {:?}, expected the all-ones table", fl, c.t.short(), rem, rem - 1, got.as_ref().map(|t| t.short()));
        if d <= 400 {
            consumed = true;
            for kind in 0..6u8 {
                // collect() allocates from size_hint(); an iterator of n >= 6 variables can only be
                // this close to its end through the hook (2^64 public steps), and a size_hint that
                // is valid in every publicly reachable state may be wrong there: not judged
                if kind == 3 && n >= 6 {
                    continue;
                }
                let (cnt, last) = lib!(format!("consuming the iterator through {}", CONSUME[kind as usize]), x.iter_consume(kind));
                ensure!(cnt == rem, "iter-from:consume-count", "{}: iterator started at {} consumed through {} yields {} items, expected {}", fl, c.t.short(), CONSUME[kind as usize], cnt, rem);
                let lm = last.map(|l| to_model(l.as_ref()));
                ensure!(lm == Some(Tt::one(n)), "iter-from:consume-last", "{}: iterator started at {} consumed through {}: last/max item {:?}, expected the all-ones table", fl, c.t.short(), CONSUME[kind as usize], lm.as_ref().map(|t| t.short()));
            }
        }
    }
    let word_carry = c.t.w.len() >= 2 && c.t.w[0] == !0;
    let mut labels = vec![format!("fam:{}", fl), format!("n:{}", n), format!("size:{}", n_label(n))];
    if consumed {
        labels.push("consumed-to-the-end".into());
    }
    if word_carry {
        labels.push("step-carries-across-word".into());
    }
    if carried {
        labels.push("iterator-carries-across-word".into());
    }
    if wrapped {
        labels.push("wraps-to-zero".into());
    }
    if pulled > 0 {
        labels.push("iterator-pulled".into());
    }
    pass(word_carry || wrapped || carried, labels)
}

pub fn def() -> PropDef {
    PropDef {
        id: "C08",
        rule: "order: cases = (family, 3..8 tables) of one n in 0..=12 (plus, for Lut, tables of other sizes, often with the same low block): b is `opposed` to a (greater at a high bit/word position and smaller at a low one, or the reverse) or related (equal, complement, 1-2 bits, one word); for all ordered pairs cmp, partial_cmp, <,<=,>,>=, == are compared with the harness's big-integer comparison (bit 2^n-1 first; n first), antisymmetry and transitivity are checked directly, sorting by cmp must be sorted for the oracle, and the fixed-width hex strings must order like cmp. Non-trivial = a pair that differs at >= 2 positions with opposite direction, or in n. Exhaustive: all ordered pairs n<=2 (quick) / n<=3 (thorough). iterator: complete runs of all_functions(n), n<=3 (quick) / n<=4 (thorough): first item zero, each item the numeric successor of the previous (model +1), strictly increasing under cmp, exactly 2^(2^n) items, then None twice. successor: through the hooks, from generated tables of n in 0..=12 (classes: low k bits / low k words all ones, within 300 of the top, generated) one successor step must equal model+1 mod 2^(2^n) with the right wrap flag, and the iterator started there must yield exactly the following successors and stop after the all-ones table; nth(k), skip(k), step_by(s) and two successive nth calls on that iterator (k < 67) must agree with repeated next(); when at most 2^20 items remain, nth/skip by at least the remaining count (up to several times the function space) must give None and stay None, and when at most 400 remain the iterator consumed through count/last/fold/for_each/collect/filter/max/by_ref must yield exactly the remaining items ending in the all-ones table (complete runs likewise). Non-trivial = the step carries across a 64-bit word or wraps.",
        assumptions: vec![
            "the 2^64-step public path to a word carry is replaced by the cfg-guarded hooks verif_successor / verif_all_functions_from, which call the real next_inplace / iterator",
            "value(), from_blocks()/set_bit() as observation/loading channel",
        ],
        subs: vec![
            Box::new(Sub {
                name: "order",
                rule: "see property rule",
                strategy: strategy_ord,
                cases: (120_000, 2_000_000),
                exhaustive: Some(enumerate_ord),
                exhaustive_note: "all ordered pairs of functions n<=2 (quick) / n<=3 (thorough), both families",
                run: run_ord,
            }),
            Box::new(Sub {
                name: "iterator",
                rule: "complete runs",
                strategy: strategy_iter,
                cases: (0, 0),
                exhaustive: Some(enumerate_iter),
                exhaustive_note: "complete runs of all_functions(n) for n<=3 (quick) / n<=4 (thorough), both families",
                run: run_iter,
            }),
            Box::new(Sub {
                name: "successor",
                rule: "hooked successor and iterator from arbitrary tables",
                strategy: strategy_succ,
                cases: (120_000, 2_000_000),
                exhaustive: None,
                exhaustive_note: "",
                run: run_succ,
            }),
        ],
    }
}
