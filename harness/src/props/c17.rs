//! C17 — invalid indices and size mismatches panic identically in every build profile; valid
//! calls give identical results in both profiles and never panic.

use std::cell::RefCell;
use std::io::{BufRead, BufReader, Write};
use std::process::{Child, ChildStdin, ChildStdout, Command, Stdio};

use proptest::prelude::*;
use serde::{Deserialize, Serialize};

use crate::adapter::{BinOp, Fam, Tab, T};
use crate::common::*;
use crate::engine::*;
use crate::gen::*;
use crate::model::{words_for, Tt};
use crate::ops::*;

// ---------------------------------------------------------------------------------------------
// invalid arguments must panic

#[derive(Clone, Debug, Hash, PartialEq, Eq, Serialize, Deserialize)]
pub enum Bad {
    NthVar(usize),
    Value(usize),
    GetBit(usize),
    SetBit(usize),
    UnsetBit(usize),
    SetValue(usize, bool),
    Flip(usize, bool),
    Swap(usize, usize, bool),
    SwapAdjacent(usize, bool),
    Cofactors(usize),
    FromCofactors(usize),
    TopDecomp(usize),
    PosUnate(usize),
    NegUnate(usize),
    /// slice of the wrong length given to from_blocks
    FromBlocksLen(usize),
    /// dynamic family only: second operand with another number of variables
    BinMismatch(BinOp, usize, usize),
    FromCofactorsMismatch(usize),
    BddMismatch(usize),
    /// bdd_complexity of a list of `len` tables where the one at `pos` (>= 1) has another size
    BddMismatchAt(usize, usize, usize),
    /// the same, the odd table (of `n2` variables) being 1 = constant zero, 2 = a table with the
    /// receiver's own blocks where they are well formed for n2 (else constant zero), 3 = Lut::default()
    BddMismatchKind(usize, usize, usize, u8),
}

#[derive(Clone, Debug, Hash, Serialize, Deserialize)]
pub struct BadCase {
    pub fam: Fam,
    pub t: Tt,
    pub call: Bad,
}

fn describe(r: Option<(&dyn Tab, Option<&dyn Tab>)>) -> String {
    match r {
        None => "a value".into(),
        Some((a, None)) => format!("a table with blocks {:x?}", a.blocks()),
        Some((a, Some(b))) => format!("tables with blocks {:x?} and {:x?}", a.blocks(), b.blocks()),
    }
}

fn run_bad(c: &BadCase) -> Verdict {
    let n = c.t.n;
    let f = c.fam.get();
    let x = match load(c.fam, &c.t) {
        Ok(x) => x,
        Err(_) => return pass(false, vec!["skipped:unloadable".into()]),
    };
    let other = |n2: usize| -> T { Fam::Dyn.get().one(n2) };
    // each arm returns a description of what was returned, if the call returned at all
    let r: Result<String, String> = guard(|| match &c.call {
        Bad::NthVar(i) => describe(Some((f.nth_var(n, *i).as_ref(), None))),
        Bad::Value(m) => format!("{}", x.value(*m)),
        Bad::GetBit(m) => format!("{}", x.get_bit(*m)),
        Bad::SetBit(m) => {
            let mut t = x.dup();
            t.set_bit(*m);
            describe(Some((t.as_ref(), None)))
        }
        Bad::UnsetBit(m) => {
            let mut t = x.dup();
            t.unset_bit(*m);
            describe(Some((t.as_ref(), None)))
        }
        Bad::SetValue(m, b) => {
            let mut t = x.dup();
            t.set_value(*m, *b);
            describe(Some((t.as_ref(), None)))
        }
        Bad::Flip(i, inplace) => {
            if *inplace {
                let mut t = x.dup();
                t.flip_inplace(*i);
                describe(Some((t.as_ref(), None)))
            } else {
                describe(Some((x.flip(*i).as_ref(), None)))
            }
        }
        Bad::Swap(i, j, inplace) => {
            if *inplace {
                let mut t = x.dup();
                t.swap_inplace(*i, *j);
                describe(Some((t.as_ref(), None)))
            } else {
                describe(Some((x.swap(*i, *j).as_ref(), None)))
            }
        }
        Bad::SwapAdjacent(i, inplace) => {
            let mut t = x.dup();
            if *inplace {
                t.swap_adjacent_inplace(*i);
                describe(Some((t.as_ref(), None)))
            } else {
                describe(Some((t.swap_adjacent(*i).as_ref(), None)))
            }
        }
        Bad::Cofactors(i) => {
            let (c0, c1) = x.cofactors(*i);
            describe(Some((c0.as_ref(), Some(c1.as_ref()))))
        }
        Bad::FromCofactors(i) => describe(Some((x.from_cofactors(x.as_ref(), *i).as_ref(), None))),
        Bad::TopDecomp(i) => x.top_decomposition(*i),
        Bad::PosUnate(i) => format!("{}", x.is_pos_unate(*i)),
        Bad::NegUnate(i) => format!("{}", x.is_neg_unate(*i)),
        Bad::FromBlocksLen(len) => {
            let blocks = vec![0x5a5a_5a5a_5a5a_5a5au64 & crate::model::mask_for(n); *len];
            describe(Some((f.from_blocks(n, &blocks).as_ref(), None)))
        }
        Bad::BinMismatch(op, form, n2) => describe(Some((x.bin_form(*op, *form, other(*n2).as_ref()).as_ref(), None))),
        Bad::FromCofactorsMismatch(n2) => describe(Some((x.from_cofactors(other(*n2).as_ref(), 0).as_ref(), None))),
        Bad::BddMismatch(n2) => format!("{}", x.bdd_complexity_with(&[other(*n2).as_ref()])),
        Bad::BddMismatchKind(n2, pos, len, kind) => {
            let d = Fam::Dyn.get();
            let xb = x.blocks();
            let fits = xb.len() == words_for(*n2) && (*n2 >= 6 || xb[0] >> (1u32 << *n2) == 0);
            let o: T = match kind {
                3 => d.default_(0),
                2 if fits => d.from_blocks(*n2, &xb),
                _ => d.zero(*n2),
            };
            if o.n() == n {
                // (Lut::default() has 0 variables: not a mismatch for n = 0)
                return "skipped".to_string();
            }
            let others: Vec<&dyn Tab> = (1..*len).map(|k| if k == *pos { o.as_ref() } else { x.as_ref() }).collect();
            format!("{}", x.bdd_complexity_with(&others))
        }
        Bad::BddMismatchAt(n2, pos, len) => {
            let o = other(*n2);
            let others: Vec<&dyn Tab> = (1..*len).map(|k| if k == *pos { o.as_ref() } else { x.as_ref() }).collect();
            format!("{}", x.bdd_complexity_with(&others))
        }
    });
    let name = format!("{:?}", c.call).split('(').next().unwrap_or("").to_string();
    match r {
        Err(_panic) => {
            // non-trivial region: indices below 64 (where the release kernels would compute silently)
            let small = match &c.call {
                Bad::NthVar(i) | Bad::Flip(i, _) | Bad::SwapAdjacent(i, _) | Bad::Cofactors(i) | Bad::FromCofactors(i) | Bad::TopDecomp(i) | Bad::PosUnate(i) | Bad::NegUnate(i) => *i < 64,
                Bad::Swap(i, j, _) => *i < 64 && *j < 64,
                Bad::Value(m) | Bad::GetBit(m) | Bad::SetBit(m) | Bad::UnsetBit(m) | Bad::SetValue(m, _) => *m < (1usize << n) + 64,
                _ => true,
            };
            pass(small, vec![format!("fam:{}", c.fam.label()), format!("n:{}", n), format!("call:{}", name)])
        }
        Ok(what) if what == "skipped" => pass(false, vec!["skipped:not-a-mismatch".into()]),
        Ok(what) => fail(
            format!("no-panic:{}", name),
            format!("{} (n={}) receiver {}: {:?} with an out-of-range / mismatched argument returned {} instead of panicking", c.fam.label(), n, c.t.short(), c.call, what),
        ),
    }
}

fn bad_indices(n: usize) -> Vec<usize> {
    let mut v: Vec<usize> = (n..=n + 70).collect();
    v.extend([255, 256, 1 << 20, usize::MAX / 2, usize::MAX - 1, usize::MAX]);
    v.retain(|i| *i >= n);
    v
}

fn enumerate_bad(_t: Tier, shard: usize, nshards: usize, f: &mut dyn FnMut(BadCase) -> bool) {
    let mut sc = ShardCounter::new(shard, nshards);
    for fam in [Fam::Dyn, Fam::Static] {
        for n in 0..=8usize {
            let receivers = [Tt::one(n), Tt::from_fn(n, |m| (m * 0x9e37 + 5) % 7 < 3), Tt::zero(n)];
            for (ri, t) in receivers.iter().enumerate() {
                let mut calls: Vec<Bad> = Vec::new();
                for i in bad_indices(n) {
                    calls.push(Bad::Flip(i, false));
                    calls.push(Bad::Flip(i, true));
                    calls.push(Bad::Cofactors(i));
                    calls.push(Bad::FromCofactors(i));
                    calls.push(Bad::TopDecomp(i));
                    calls.push(Bad::PosUnate(i));
                    calls.push(Bad::NegUnate(i));
                    if ri == 0 {
                        calls.push(Bad::NthVar(i));
                    }
                    // swaps: bad/good, good/bad, bad/bad
                    for j in (0..n).chain([i, i.wrapping_add(1)]) {
                        for inplace in [false, true] {
                            calls.push(Bad::Swap(i, j, inplace));
                            calls.push(Bad::Swap(j, i, inplace));
                        }
                    }
                    calls.push(Bad::SwapAdjacent(i, false));
                    calls.push(Bad::SwapAdjacent(i, true));
                }
                // swap_adjacent(n-1): the second variable is out of range
                if n >= 1 {
                    calls.push(Bad::SwapAdjacent(n - 1, false));
                    calls.push(Bad::SwapAdjacent(n - 1, true));
                }
                let size = 1usize << n;
                for m in (size..=size + 70).chain([1 << 20, usize::MAX / 2, usize::MAX - 1, usize::MAX]) {
                    calls.push(Bad::Value(m));
                    calls.push(Bad::GetBit(m));
                    calls.push(Bad::SetBit(m));
                    calls.push(Bad::UnsetBit(m));
                    calls.push(Bad::SetValue(m, true));
                    calls.push(Bad::SetValue(m, false));
                }
                if ri == 0 {
                    for len in 0..=6usize {
                        if len != words_for(n) {
                            calls.push(Bad::FromBlocksLen(len));
                        }
                    }
                }
                if fam == Fam::Dyn {
                    for n2 in 0..=9usize {
                        if n2 == n {
                            continue;
                        }
                        for op in [BinOp::And, BinOp::Or, BinOp::Xor] {
                            for form in 0..8 {
                                calls.push(Bad::BinMismatch(op, form, n2));
                            }
                        }
                        if n >= 1 {
                            calls.push(Bad::FromCofactorsMismatch(n2));
                        }
                        calls.push(Bad::BddMismatch(n2));
                        for len in 3..=6usize {
                            for pos in 1..len {
                                calls.push(Bad::BddMismatchAt(n2, pos, len));
                            }
                        }
                        // the odd table repeats the blocks of an earlier member (zero / same blocks / default)
                        for kind in 1..=3u8 {
                            for (pos, len) in [(1usize, 2usize), (1, 3), (2, 3), (3, 5)] {
                                calls.push(Bad::BddMismatchKind(n2, pos, len, kind));
                            }
                        }
                    }
                }
                for call in calls {
                    if sc.mine() && !f(BadCase { fam, t: t.clone(), call }) {
                        return;
                    }
                }
            }
        }
    }
}

fn strategy_bad(_t: Tier) -> BoxedStrategy<BadCase> {
    // generated receivers and arbitrary out-of-range values on top of the enumeration
    arb_fam_n(0, 8)
        .prop_flat_map(|(fam, n)| {
            let size = 1usize << n;
            let bad_var = prop_oneof![3 => n..n + 80, 1 => n..usize::MAX, 1 => Just(usize::MAX)];
            let bad_bit = prop_oneof![3 => size..size + 80, 1 => size..usize::MAX, 1 => Just(usize::MAX)];
            let good_or_bad = prop_oneof![0..n + 80, Just(usize::MAX)];
            let call = prop_oneof![
                bad_var.clone().prop_map(Bad::NthVar),
                (bad_var.clone(), any::<bool>()).prop_map(|(i, b)| Bad::Flip(i, b)),
                (bad_var.clone(), good_or_bad.clone(), any::<bool>(), any::<bool>()).prop_map(|(i, j, b, sw)| if sw { Bad::Swap(j, i, b) } else { Bad::Swap(i, j, b) }),
                (bad_var.clone(), any::<bool>()).prop_map(|(i, b)| Bad::SwapAdjacent(i, b)),
                bad_var.clone().prop_map(Bad::Cofactors),
                bad_var.clone().prop_map(Bad::FromCofactors),
                bad_var.clone().prop_map(Bad::TopDecomp),
                bad_var.clone().prop_map(Bad::PosUnate),
                bad_var.prop_map(Bad::NegUnate),
                bad_bit.clone().prop_map(Bad::Value),
                bad_bit.clone().prop_map(Bad::GetBit),
                bad_bit.clone().prop_map(Bad::SetBit),
                bad_bit.clone().prop_map(Bad::UnsetBit),
                (bad_bit, any::<bool>()).prop_map(|(m, b)| Bad::SetValue(m, b)),
            ];
            (arb_tt(n), call).prop_map(move |(t, call)| BadCase { fam, t, call })
        })
        .boxed()
}

// ---------------------------------------------------------------------------------------------
// valid calls: identical in both build profiles

#[derive(Clone, Debug, Hash, Serialize, Deserialize)]
pub struct ValidCase {
    pub fam: Fam,
    pub h: History,
}

const OPTS: OpOptions = OpOptions {
    random: false,
    raw_hex: true,
    canon_max_n: 7,
    successor: true,
};

fn strategy_valid(t: Tier) -> BoxedStrategy<ValidCase> {
    let max_len = t.pick(16, 40);
    // about one history in 3000 runs on Luts of 17..=20 variables (tables of 2048 .. 16384 words: the
    // kernels' own size assertions must hold there too), at most 4 steps
    let huge = (17usize..=20).prop_flat_map(|n| arb_history(n, Fam::Dyn, OPTS, 1, 4).prop_map(|h| ValidCase { fam: Fam::Dyn, h }));
    prop_oneof![
        3000 => arb_fam().prop_flat_map(move |fam| arb_n(0, 8).prop_flat_map(move |n| arb_history(n, fam, OPTS, 1, max_len).prop_map(move |h| ValidCase { fam, h }))),
        1 => huge,
    ]
    .boxed()
}

struct Peer {
    child: Child,
    stdin: ChildStdin,
    stdout: BufReader<ChildStdout>,
}

thread_local! {
    static PEER: RefCell<Option<Peer>> = RefCell::new(None);
}

fn peer_exec(req: &str) -> Result<String, String> {
    PEER.with(|p| {
        let mut p = p.borrow_mut();
        if p.is_none() {
            let path = std::env::var("VCHECK_PEER").map_err(|_| "VCHECK_PEER is not set".to_string())?;
            let mut child = Command::new(&path)
                .arg("serve")
                .stdin(Stdio::piped())
                .stdout(Stdio::piped())
                .stderr(Stdio::null())
                .spawn()
                .map_err(|e| format!("cannot start the other-profile binary {}: {}", path, e))?;
            let stdin = child.stdin.take().unwrap();
            let stdout = BufReader::new(child.stdout.take().unwrap());
            *p = Some(Peer { child, stdin, stdout });
        }
        let peer = p.as_mut().unwrap();
        let io = (|| -> std::io::Result<String> {
            peer.stdin.write_all(req.as_bytes())?;
            peer.stdin.write_all(b"\n")?;
            peer.stdin.flush()?;
            let mut line = String::new();
            peer.stdout.read_line(&mut line)?;
            Ok(line)
        })();
        match io {
            Ok(l) if !l.trim().is_empty() => Ok(l),
            Ok(_) => {
                let _ = peer.child.kill();
                *p = None;
                Err("the other-profile process closed its output".into())
            }
            Err(e) => {
                let _ = peer.child.kill();
                *p = None;
                Err(format!("i/o with the other-profile process failed: {}", e))
            }
        }
    })
}

/// `vcheck serve`: one JSON case per line in, one JSON list of outcomes per line out
pub fn serve() -> i32 {
    let stdin = std::io::stdin();
    let stdout = std::io::stdout();
    for line in stdin.lock().lines() {
        let line = match line {
            Ok(l) => l,
            Err(_) => break,
        };
        if line.trim().is_empty() {
            continue;
        }
        let resp = match serde_json::from_str::<ValidCase>(&line) {
            Ok(c) => match run_history(c.fam, &c.h, |_, _, _, _, _, _| Ok(())) {
                Ok(outs) => serde_json::json!({ "outs": outs }),
                Err(e) => serde_json::json!({ "load_error": e }),
            },
            Err(e) => serde_json::json!({ "error": format!("bad request: {}", e) }),
        };
        let mut o = stdout.lock();
        if writeln!(o, "{}", resp).is_err() || o.flush().is_err() {
            break;
        }
    }
    0
}

fn run_valid(c: &ValidCase) -> Verdict {
    let here = run_history(c.fam, &c.h, |_, _, _, _, _, _| Ok(()));
    let req = serde_json::to_string(c).unwrap();
    let line = match peer_exec(&req) {
        Ok(l) => l,
        Err(e) => return fail("inconclusive:peer", e),
    };
    let v: serde_json::Value = match serde_json::from_str(&line) {
        Ok(v) => v,
        Err(e) => return fail("inconclusive:peer", format!("unreadable answer from the other-profile process: {}", e)),
    };
    if let Some(e) = v.get("error") {
        return fail("inconclusive:peer", format!("other-profile process: {}", e));
    }
    let there: Result<Vec<Outcome>, String> = if let Some(e) = v.get("load_error") {
        Err(e.to_string())
    } else {
        serde_json::from_value(v["outs"].clone()).map_err(|e| e.to_string())
    };
    let me = if cfg!(debug_assertions) { "checked" } else { "fast" };
    let peer = if cfg!(debug_assertions) { "fast" } else { "checked" };
    let (here, there) = match (here, there) {
        (Ok(a), Ok(b)) => (a, b),
        (Err(_), Err(_)) => return pass(false, vec!["skipped:unloadable".into()]),
        (a, b) => return fail("load-differs", format!("loading the initial pool: {} build {:?}, {} build {:?}", me, a.err(), peer, b.err())),
    };
    for (k, st) in c.h.steps.iter().enumerate() {
        let (a, b) = (here.get(k), there.get(k));
        let opname = format!("{:?}", st.op).split('(').next().unwrap_or("").to_string();
        if a == Some(&Outcome::Panic) || b == Some(&Outcome::Panic) {
            return fail(
                format!("valid-call-panics:{}", opname),
                format!("{} n={}: step {} ({:?} a={} b={}) has in-range arguments but panics: {} build -> {:?}, {} build -> {:?}", c.fam.label(), c.h.n, k, st.op, st.a, st.b, me, a, peer, b),
            );
        }
        if a != b {
            return fail(
                format!("profiles-differ:{}", opname),
                format!("{} n={}: step {} ({:?} a={} b={}) gives {:?} in the {} build but {:?} in the {} build", c.fam.label(), c.h.n, k, st.op, st.a, st.b, a, me, b, peer),
            );
        }
        if a.is_none() {
            break;
        }
    }
    let mut labels = vec![format!("fam:{}", c.fam.label()), format!("n:{}", c.h.n)];
    let arithmetic = c.h.steps.iter().any(|s| matches!(s.op, Op::Equals(_) | Op::Threshold(_) | Op::Symmetric(_) | Op::Successor | Op::Swap(..) | Op::Flip(..) | Op::Cofactor0(_) | Op::Cofactor1(_) | Op::FromCofactors(_) | Op::SwapAdjacent(..) | Op::PCanon | Op::NCanon | Op::NpnCanon | Op::FromHexRaw(_)));
    if arithmetic {
        labels.push("reaches-debug-asserted-or-arithmetic-kernel".into());
    }
    pass(arithmetic, labels)
}

pub fn def() -> PropDef {
    PropDef {
        id: "C17",
        rule: "invalid: cases = (family, receiver table, call with an out-of-range or mismatched argument), n in 0..=8, run in BOTH build profiles (release; release + debug-assertions + overflow-checks): nth_var, value/get_bit/set_bit/unset_bit/set_value (assignment in 2^n..=2^n+70 and 2^20, usize::MAX/2, MAX-1, MAX), flip(_inplace), swap(_inplace) with either or both indices bad and in both argument orders, swap_adjacent(_inplace) (n-1 included), cofactors, from_cofactors, top_decomposition, is_pos_unate, is_neg_unate (index in n..=n+70 and 255, 256, 2^20, usize::MAX/2, MAX-1, MAX), from_blocks with every slice length 0..=6 other than the right one, and for Lut every form of and/or/xor, from_cofactors and bdd_complexity with operands of different n (for bdd_complexity the odd table at every position of lists of 2..=6 tables, the odd table being constant one, constant zero, a table with the very blocks of the other members, or Lut::default()); three receivers per size (constant one, a dense table, zero) — this part is a complete enumeration in both tiers — plus generated receivers and arbitrary out-of-range values. Under catch_unwind the call must panic; `returned` is the violation and what was returned is reported. Non-trivial = index/assignment within 64 of the valid range (where release kernels would compute silently). valid: cases = (family, history of 1..16 (quick) / 1..40 (thorough) in-range API calls over a pool of 4 generated tables, n in 0..=8 (about one history in 3000 on Luts of 17..=20 variables, at most 4 calls), the whole common API as in C10 incl. equals/threshold with k up to usize::MAX and the hooked successor); the history is executed in this build and, through a long-lived child process (`vcheck serve`), in the other build profile; every step's outcome (blocks, certificates, strings, counts, orderings, Ok/Err) must be identical and neither side may panic. Non-trivial = the history reaches a kernel with debug assertions or arithmetic on user-supplied sizes.",
        assumptions: vec![
            "a panic is recognised through catch_unwind (panic = unwind in both harness profiles)",
            "a dead / unreachable other-profile process is reported as inconclusive (exit 2), never as a violation",
        ],
        subs: vec![
            Box::new(Sub {
                name: "invalid",
                rule: "see property rule",
                strategy: strategy_bad,
                cases: (200_000, 2_000_000),
                exhaustive: Some(enumerate_bad),
                exhaustive_note: "complete enumeration of the listed (family, n<=8, method, out-of-range argument / mismatched operand) combinations, 3 receivers each",
                run: run_bad,
            }),
            Box::new(Sub { name: "valid", rule: "see property rule", strategy: strategy_valid, cases: (60_000, 800_000), exhaustive: None, exhaustive_note: "", run: run_valid }),
        ],
    }
}
