//! C12 — cube algebra: evaluation, conjunction, implication and intersection are semantic.

use proptest::collection::vec;
use proptest::prelude::*;
use serde::{Deserialize, Serialize};

use volute::sop::Cube;

use crate::engine::*;
use crate::model::Tt;
use crate::sopx::*;
use crate::{ensure, lib};

#[derive(Clone, Debug, Hash, Serialize, Deserialize)]
pub struct Case {
    /// number of variables the cubes live in (assignments below 2^nv are enumerated when nv<=5)
    pub nv: usize,
    pub a: CB,
    pub b: CB,
    /// extra 32-bit assignments
    pub ms: Vec<u32>,
}

/// a cube related to `a`: a child (extra literals), a parent (literals dropped), a sibling with
/// one literal of the other polarity, the same literal set built another way, or unrelated
fn arb_related_cb(nv: usize, a: &CB) -> BoxedStrategy<CB> {
    let ma = a.model();
    let lits: Vec<(usize, bool)> = match &ma {
        CubeM::Lits(l) => l.iter().map(|(v, p)| (*v, *p)).collect(),
        CubeM::Zero => vec![],
    };
    if nv == 0 {
        return arb_cb(nv);
    }
    let a0 = a.clone();
    let l1 = lits.clone();
    let l2 = lits.clone();
    let l3 = lits.clone();
    let from = |l: &[(usize, bool)]| {
        CB::FromVars(l.iter().filter(|x| x.1).map(|x| x.0).collect(), l.iter().filter(|x| !x.1).map(|x| x.0).collect())
    };
    prop_oneof![
        3 => arb_cb(nv),
        2 => (arb_cb(nv), 0u8..4).prop_map(move |(x, f)| CB::And(Box::new(a0.clone()), Box::new(x), f)),
        2 => any::<u32>().prop_map(move |keep| from(&l1.iter().enumerate().filter(|(i, _)| (keep >> (i % 32)) & 1 != 0).map(|(_, x)| *x).collect::<Vec<_>>())),
        2 => (any::<u16>(), any::<u32>()).prop_map(move |(k, keep)| {
            let mut l: Vec<(usize, bool)> = l2.iter().enumerate().filter(|(i, _)| (keep >> (i % 32)) & 3 != 0).map(|(_, x)| *x).collect();
            if !l.is_empty() {
                let i = (k as usize) % l.len();
                l[i].1 = !l[i].1;
            }
            from(&l)
        }),
        1 => Just(from(&l3)),
    ]
    .boxed()
}

fn strategy(_t: Tier) -> BoxedStrategy<Case> {
    prop_oneof![2 => 0usize..=5, 2 => 6usize..=12, 3 => 13usize..=32]
        .prop_flat_map(|nv| {
            arb_cb(nv).prop_flat_map(move |a| {
                let a0 = a.clone();
                (arb_related_cb(nv, &a), vec(any::<u32>(), 0..=6)).prop_map(move |(b, ms)| Case { nv, a: a0.clone(), b, ms })
            })
        })
        .boxed()
}

pub fn run(c: &Case) -> Verdict {
    let (ma, mb) = (c.a.model(), c.b.model());
    let a = lib!("cube construction", c.a.build());
    let b = lib!("cube construction", c.b.build());
    // ---- construction: the built cube denotes what the description says ------------------
    for (name, cube, model) in [("a", &a, &ma), ("b", &b, &mb)] {
        let back = lib!("pos_vars/neg_vars", CubeM::of(cube));
        ensure!(back == *model, "construct", "cube {} built as {:?} has literals {} but should denote {}", name, if name == "a" { &c.a } else { &c.b }, back.show(), model.show());
        // contradictions are the one canonical zero cube
        if *model == CubeM::Zero {
            ensure!(*cube == Cube::zero(), "zero-not-canonical", "contradictory cube {:?} is not == Cube::zero()", cube);
        }
        ensure!(cube.is_zero() == (*model == CubeM::Zero), "is_zero", "is_zero() = {} for {}", cube.is_zero(), model.show());
        ensure!(cube.is_one() == (*model == CubeM::one()), "is_one", "is_one() = {} for {}", cube.is_one(), model.show());
        ensure!(cube.is_constant() == (*model == CubeM::Zero || *model == CubeM::one()), "is_constant", "is_constant() = {} for {}", cube.is_constant(), model.show());
        ensure!(cube.num_lits() == model.num_lits(), "num_lits", "num_lits() = {} for {}", cube.num_lits(), model.show());
        ensure!(cube.num_gates() == std::cmp::max(model.num_lits(), 1) - 1, "num_gates", "num_gates() = {} for {}", cube.num_gates(), model.show());
    }
    // ---- assignments ------------------------------------------------------------------------
    let mut ms: Vec<u32> = c.ms.clone();
    if c.nv <= 5 {
        ms.extend(0..(1u32 << c.nv));
    }
    // constructed assignments: satisfying a, satisfying b, satisfying both, near misses
    for fill in [0u32, !0, 0x5555_5555, c.ms.first().copied().unwrap_or(0x1234_5678)] {
        for m in [&ma, &mb, &ma.and(&mb)] {
            if let Some(x) = m.satisfying(fill) {
                ms.push(x);
                if let Some(v) = m.max_var() {
                    ms.push(x ^ (1 << v));
                }
                ms.push(x ^ 1);
            }
        }
    }
    for &m in &ms {
        for (cube, model) in [(&a, &ma), (&b, &mb)] {
            let got = lib!("Cube::value", cube.value(m as usize));
            ensure!(got == model.value(m as u64), "value", "({}).value({:#x}) = {} but the literal-set semantics give {}", model.show(), m, got, model.value(m as u64));
        }
    }
    // ---- equality is semantic ---------------------------------------------------------------
    ensure!((a == b) == (ma == mb), "eq", "{} == {} is {} but as functions they are {}", ma.show(), mb.show(), a == b, if ma == mb { "equal" } else { "different" });
    // ---- the same object as both operands: a & a is a -------------------------------------------
    for form in 0..4u8 {
        let r = lib!("Cube & with the same object on both sides", cube_and(&a, &a, form));
        ensure!(CubeM::of(&r) == ma, "and:alias", "a & a [form {}] with the same object a = {} on both sides gives {}", form, ma.show(), CubeM::of(&r).show());
    }
    // ---- conjunction, four forms --------------------------------------------------------------
    let mab = ma.and(&mb);
    for form in 0..4u8 {
        let r = lib!("Cube &", cube_and(&a, &b, form));
        let back = CubeM::of(&r);
        ensure!(back == mab, "and", "({}) & ({}) [form {}] = {} but the conjunction is {}", ma.show(), mb.show(), form, back.show(), mab.show());
        if mab == CubeM::Zero {
            ensure!(r == Cube::zero(), "and:zero-not-canonical", "({}) & ({}) is contradictory but the result {:?} != Cube::zero()", ma.show(), mb.show(), r);
        }
        for &m in ms.iter().take(40) {
            ensure!(r.value(m as usize) == (ma.value(m as u64) && mb.value(m as u64)), "and:value", "(({}) & ({})).value({:#x}) is not the AND of the operand values", ma.show(), mb.show(), m);
        }
    }
    // ---- implication / intersection ---------------------------------------------------------
    for (x, mx, y, my) in [(&a, &ma, &b, &mb), (&b, &mb, &a, &ma)] {
        let imp = lib!("Cube::implies", x.implies(*y));
        let int = lib!("Cube::intersects", x.intersects(*y));
        // semantic decision: exhaustively when small, by the literal-set theorem otherwise; in
        // both cases a witness assignment is constructed and checked with value()
        let want_imp = if c.nv <= 5 { (0..(1u64 << c.nv)).all(|m| !mx.value(m) || my.value(m)) } else { mx.implies(my) };
        let want_int = if c.nv <= 5 { (0..(1u64 << c.nv)).any(|m| mx.value(m) && my.value(m)) } else { mx.intersects(my) };
        ensure!(c.nv > 5 || (want_imp == mx.implies(my) && want_int == mx.intersects(my)), "harness", "harness bug: literal-set theorem disagrees with enumeration for {} / {}", mx.show(), my.show());
        if !want_imp {
            // counter-example: satisfy x, falsify a literal of y
            let w = match (mx, my) {
                (CubeM::Lits(_), CubeM::Zero) => mx.satisfying(0),
                (CubeM::Lits(lx), CubeM::Lits(ly)) => {
                    let (v, p) = ly.iter().find(|(v, p)| lx.get(v) != Some(p)).map(|(v, p)| (*v, *p)).unwrap();
                    mx.satisfying(if p { 0 } else { !0 }).map(|m| if lx.contains_key(&v) { m } else if p { m & !(1 << v) } else { m | (1 << v) })
                }
                _ => None,
            };
            if let Some(w) = w {
                ensure!(x.value(w as usize) && !y.value(w as usize), "harness:witness", "harness bug: bad counter-example {:#x} for {} => {}", w, mx.show(), my.show());
            }
        }
        ensure!(imp == want_imp, "implies", "({}).implies({}) = {} but semantically it is {}", mx.show(), my.show(), imp, want_imp);
        if want_int {
            let w = mx.and(my).satisfying(0x0f0f_0f0f).unwrap();
            ensure!(x.value(w as usize) && y.value(w as usize), "harness:witness", "harness bug: bad common assignment");
        }
        ensure!(int == want_int, "intersects", "({}).intersects({}) = {} but semantically it is {}", mx.show(), my.show(), int, want_int);
    }
    let multi = |m: &CubeM| m.num_lits() >= 2;
    let share = match (&ma, &mb) {
        (CubeM::Lits(x), CubeM::Lits(y)) => x.keys().any(|k| y.contains_key(k)),
        _ => false,
    };
    let mut labels = vec![format!("nv:{}", match c.nv { 0..=5 => "<=5", 6..=12 => "6-12", _ => "13-32" })];
    if mab == CubeM::Zero && ma != CubeM::Zero && mb != CubeM::Zero {
        labels.push("conflicting-pair".into());
    }
    if ma != mb && (ma.implies(&mb) || mb.implies(&ma)) && ma != CubeM::Zero && mb != CubeM::Zero {
        labels.push("nested-pair".into());
    }
    pass(multi(&ma) && multi(&mb) && share, labels)
}

/// all 3^n + 1 cubes (3^n from masks, plus the zero cube), all ordered pairs, n <= 5
fn enumerate(t: Tier, shard: usize, nshards: usize, f: &mut dyn FnMut(Case) -> bool) {
    let mut sc = ShardCounter::new(shard, nshards);
    for nv in 0..=t.pick(4usize, 5) {
        let mut cubes: Vec<CB> = vec![CB::Zero];
        for p in 0..(1u32 << nv) {
            for n in 0..(1u32 << nv) {
                if p & n == 0 {
                    cubes.push(CB::FromMask(p, n));
                }
            }
        }
        for a in &cubes {
            for b in &cubes {
                if !sc.mine() {
                    continue;
                }
                if !f(Case { nv, a: a.clone(), b: b.clone(), ms: vec![] }) {
                    return;
                }
            }
        }
    }
}

// ---------------------------------------------------------------------------------------------
// implies_lut, minterm, Cube::all

#[derive(Clone, Debug, Hash, Serialize, Deserialize)]
pub struct LutCase {
    pub f: Tt,
    pub cube: CB,
}

fn strategy_lut(_t: Tier) -> BoxedStrategy<LutCase> {
    (0usize..=8)
        .prop_flat_map(|n| {
            (crate::gen::arb_tt(n), arb_cb(n), any::<u32>(), any::<u32>(), any::<bool>()).prop_map(move |(f, cube, pick, keep, related)| {
                // half of the cubes are expansions of a minterm of the on-set (or off-set) of f:
                // often, but not always, implicants
                let cube = if related && n > 0 {
                    let m = (pick as usize) % f.size();
                    let mut p = vec![];
                    let mut ng = vec![];
                    for v in 0..n {
                        if (keep >> v) & 1 != 0 {
                            if (m >> v) & 1 != 0 { p.push(v) } else { ng.push(v) }
                        }
                    }
                    CB::FromVars(p, ng)
                } else {
                    cube
                };
                LutCase { f, cube }
            })
        })
        .boxed()
}

fn run_lut(c: &LutCase) -> Verdict {
    let n = c.f.n;
    let m = c.cube.model();
    let cube = lib!("cube construction", c.cube.build());
    let l = lib!("Lut::from_blocks", to_lut(&c.f));
    let want = (0..c.f.size()).all(|x| !m.value(x as u64) || c.f.get(x));
    let got = lib!("Cube::implies_lut", cube.implies_lut(&l));
    ensure!(got == want, "implies_lut", "({}).implies_lut({}) = {} but the cube {} an implicant", m.show(), c.f.short(), got, if want { "is" } else { "is not" });
    // the same cube with additional NEGATIVE literals on variables the table does not have: f does
    // not depend on them, and both readings (restrict the cube to the table's assignments, or
    // extend f to more variables) give the same answer as for the cube itself
    if m != CubeM::Zero {
        for hs in [vec![n], vec![31usize], vec![n, std::cmp::min(n + 5, 31), 31]] {
            let hs: Vec<usize> = hs.into_iter().filter(|h| *h >= n && *h < 32).collect();
            if hs.is_empty() {
                continue;
            }
            let wide = lib!("Cube &", cube & Cube::from_vars(&[], &hs));
            let got = lib!("Cube::implies_lut", wide.implies_lut(&l));
            ensure!(got == want, "implies_lut:extra-negative-literals", "({}).implies_lut({}) = {} although without the negative literals on the absent variables {:?} the cube {} an implicant", CubeM::of(&wide).show(), c.f.short(), got, hs, if want { "is" } else { "is not" });
        }
    }
    pass(m.num_lits() >= 1 && !c.f.is_const(), vec![format!("n:{}", n), format!("implicant:{}", want)])
}

fn enumerate_lut(t: Tier, shard: usize, nshards: usize, f: &mut dyn FnMut(LutCase) -> bool) {
    let mut sc = ShardCounter::new(shard, nshards);
    for n in 0..=t.pick(3usize, 4) {
        let mut cubes: Vec<CB> = vec![CB::Zero];
        for p in 0..(1u32 << n) {
            for ng in 0..(1u32 << n) {
                if p & ng == 0 {
                    cubes.push(CB::FromMask(p, ng));
                }
            }
        }
        let count = 1u64 << (1u32 << n);
        // n = 4: 65536 functions x 82 cubes
        for x in 0..count {
            for cb in &cubes {
                if !sc.mine() {
                    continue;
                }
                if !f(LutCase { f: Tt::from_words(n, vec![x]), cube: cb.clone() }) {
                    return;
                }
            }
        }
    }
}

#[derive(Clone, Debug, Hash, Serialize, Deserialize)]
pub struct AllCase {
    pub n: usize,
}

fn run_all(c: &AllCase) -> Verdict {
    let n = c.n;
    let all: Vec<Cube> = lib!("Cube::all", Cube::all(n).collect());
    let want = 3usize.pow(n as u32);
    ensure!(all.len() == want, "all:count", "Cube::all({}) yields {} cubes, expected 3^n = {}", n, all.len(), want);
    let mut seen = std::collections::BTreeSet::new();
    for cb in &all {
        let m = CubeM::of(cb);
        ensure!(m != CubeM::Zero && !cb.is_zero(), "all:zero", "Cube::all({}) yields a contradictory cube", n);
        ensure!(m.max_var().map(|v| v < n).unwrap_or(true), "all:var-range", "Cube::all({}) yields {} with a variable >= {}", n, m.show(), n);
        ensure!(seen.insert(m.clone()), "all:duplicate", "Cube::all({}) yields {} twice", n, m.show());
    }
    // the same enumeration through other iterator methods (count, last, nth, fold, skip)
    {
        let cnt = lib!("Cube::all().count()", Cube::all(n).count());
        ensure!(cnt == want, "all:consume", "Cube::all({}).count() = {}, expected {}", n, cnt, want);
        let last = lib!("Cube::all().last()", Cube::all(n).last());
        ensure!(last == all.last().copied(), "all:consume", "Cube::all({}).last() differs from the last item yielded by next()", n);
        let folded = lib!("Cube::all().fold", Cube::all(n).fold(0usize, |c, _| c + 1));
        ensure!(folded == want, "all:consume", "Cube::all({}) folded yields {} items, expected {}", n, folded, want);
        for k in [0usize, 1, want / 2, want.saturating_sub(1), want, want + 7] {
            let got = lib!("Cube::all().nth", Cube::all(n).nth(k));
            ensure!(got == all.get(k).copied(), "all:consume", "Cube::all({}).nth({}) differs from item {} yielded by next()", n, k, k);
            let got = lib!("Cube::all().skip", Cube::all(n).skip(k).next());
            ensure!(got == all.get(k).copied(), "all:consume", "Cube::all({}).skip({}).next() differs from item {} yielded by next()", n, k, k);
        }
    }
    // minterm(n, m) is true exactly at m
    if n <= 6 {
        for m in 0..(1usize << n) {
            let mt = lib!("Cube::minterm", Cube::minterm(n, m));
            for x in 0..(1usize << n) {
                ensure!(mt.value(x) == (x == m), "minterm", "Cube::minterm({}, {}).value({}) = {}", n, m, x, mt.value(x));
            }
            ensure!(mt.num_lits() == n, "minterm:lits", "Cube::minterm({}, {}) has {} literals", n, m, mt.num_lits());
        }
    }
    pass(n >= 2, vec![format!("n:{}", n)])
}

fn strategy_all(_t: Tier) -> BoxedStrategy<AllCase> {
    (0usize..=8).prop_map(|n| AllCase { n }).boxed()
}

fn enumerate_all(t: Tier, shard: usize, nshards: usize, f: &mut dyn FnMut(AllCase) -> bool) {
    let mut sc = ShardCounter::new(shard, nshards);
    for n in 0..=t.pick(8usize, 9) {
        if sc.mine() && !f(AllCase { n }) {
            return;
        }
    }
}

pub fn def() -> PropDef {
    PropDef {
        id: "C12",
        rule: "pairs: cases = (nv, a, b, assignments): cubes are *build descriptions* over variables < nv (nv in 0..=32) through every constructor — one, zero, nth_var(_inv), from_vars with repeated and overlapping lists, from_mask with disjoint and overlapping masks, minterm(n<=31, m), and chains of & in its four reference forms — whose meaning is computed by the harness's literal-set model. Checked: the literals read back through pos_vars()/neg_vars() are the model's; every contradictory result == Cube::zero(); is_zero/is_one/is_constant/num_lits/num_gates; value(m) on all assignments (nv<=5) plus generated 32-bit assignments plus constructed ones (satisfying a, b, a&b, and single-bit near misses); a == b iff same function; a & b in 4 forms; implies/intersects in both directions decided semantically — by enumeration of all assignments for nv<=5 and by the literal-set theorem with a constructed witness assignment checked through value() otherwise. Non-trivial = both cubes have >= 2 literals and share a variable. Exhaustive: all (3^n+1)^2 ordered pairs for n<=4 (quick) / n<=5 (thorough). implies_lut: all cubes x all functions n<=3 (quick) / n<=4 (thorough) plus generated up to n=8, against the definition; each cube also with extra negative literals on variables the table does not have (same answer). all: Cube::all(n) yields exactly 3^n distinct non-contradictory cubes over variables < n for n<=8 (9 thorough), the same items through count/last/fold/nth/skip (also beyond the end), and minterm(n,m) is true exactly at m (n<=6, all m).",
        assumptions: vec![
            "minterm(32, .) and nth_var(>=32) are outside the domain (u32 shift; no caller in the crate reaches them)",
            "cubes are observed through pos_vars()/neg_vars()/value()/==",
        ],
        subs: vec![
            Box::new(Sub { name: "pairs", rule: "see property rule", strategy, cases: (400_000, 6_000_000), exhaustive: Some(enumerate), exhaustive_note: "all ordered pairs of the 3^n+1 cubes, all assignments, n<=4 (quick) / n<=5 (thorough)", run }),
            Box::new(Sub { name: "implies_lut", rule: "definition of implicant", strategy: strategy_lut, cases: (200_000, 2_000_000), exhaustive: Some(enumerate_lut), exhaustive_note: "all cubes x all functions, n<=3 (quick) / n<=4 (thorough)", run: run_lut }),
            Box::new(Sub { name: "all", rule: "enumeration and minterms", strategy: strategy_all, cases: (0, 0), exhaustive: Some(enumerate_all), exhaustive_note: "n in 0..=8 (quick) / 0..=9 (thorough)", run: run_all }),
        ],
    }
}
