//! C16 — Display of cubes and two-level forms is a formula denoting the same function.

use proptest::collection::vec;
use proptest::prelude::*;
use serde::{Deserialize, Serialize};

use crate::engine::*;
use crate::model::Tt;
use crate::sopx::*;
use crate::{ensure, lib};

// ---------------------------------------------------------------------------------------------
// the harness's own formula reader: or := xor ('|' xor)* ; xor := prod ('^' prod)* ;
// prod := factor+ ; factor := '0' | '1' | '!'? 'x' digits        (white space insignificant)

#[derive(Clone, Debug, PartialEq)]
enum Tok {
    Zero,
    One,
    Var(usize),
    Not,
    Xor,
    Or,
}

fn tokenize(s: &str) -> Result<Vec<Tok>, String> {
    let b: Vec<char> = s.chars().collect();
    let mut i = 0;
    let mut v = Vec::new();
    while i < b.len() {
        let c = b[i];
        match c {
            ' ' | '\t' | '\n' => i += 1,
            '0' => {
                v.push(Tok::Zero);
                i += 1
            }
            '1' => {
                v.push(Tok::One);
                i += 1
            }
            '!' => {
                v.push(Tok::Not);
                i += 1
            }
            '^' => {
                v.push(Tok::Xor);
                i += 1
            }
            '|' => {
                v.push(Tok::Or);
                i += 1
            }
            'x' => {
                let mut j = i + 1;
                let mut d = String::new();
                while j < b.len() && b[j].is_ascii_digit() {
                    d.push(b[j]);
                    j += 1;
                }
                if d.is_empty() {
                    return Err(format!("`x` without an index at position {}", i));
                }
                v.push(Tok::Var(d.parse().map_err(|_| "index too large".to_string())?));
                i = j;
            }
            _ => return Err(format!("unexpected character {:?} at position {}", c, i)),
        }
    }
    Ok(v)
}

#[derive(Clone, Debug)]
pub enum Factor {
    Const(bool),
    Lit(usize, bool),
}

/// OR of XORs of products
#[derive(Clone, Debug)]
pub struct Formula(pub Vec<Vec<Vec<Factor>>>);

pub fn parse(s: &str) -> Result<Formula, String> {
    let t = tokenize(s)?;
    if t.is_empty() {
        return Err("empty text".into());
    }
    let mut ors = Vec::new();
    let mut xors: Vec<Vec<Factor>> = Vec::new();
    let mut prod: Vec<Factor> = Vec::new();
    let mut i = 0;
    while i < t.len() {
        match &t[i] {
            Tok::Zero => prod.push(Factor::Const(false)),
            Tok::One => prod.push(Factor::Const(true)),
            Tok::Var(v) => prod.push(Factor::Lit(*v, true)),
            Tok::Not => {
                i += 1;
                match t.get(i) {
                    Some(Tok::Var(v)) => prod.push(Factor::Lit(*v, false)),
                    _ => return Err("`!` not followed by a variable".into()),
                }
            }
            Tok::Xor => {
                if prod.is_empty() {
                    return Err("`^` without a left operand".into());
                }
                xors.push(std::mem::take(&mut prod));
            }
            Tok::Or => {
                if prod.is_empty() {
                    return Err("`|` without a left operand".into());
                }
                xors.push(std::mem::take(&mut prod));
                ors.push(std::mem::take(&mut xors));
            }
        }
        i += 1;
    }
    if prod.is_empty() {
        return Err("operator without a right operand".into());
    }
    xors.push(prod);
    ors.push(xors);
    Ok(Formula(ors))
}

impl Formula {
    pub fn eval(&self, m: u64) -> bool {
        self.0.iter().any(|x| {
            x.iter().fold(false, |acc, p| {
                acc ^ p.iter().all(|f| match f {
                    Factor::Const(b) => *b,
                    Factor::Lit(v, pos) => ((m >> v) & 1 != 0) == *pos,
                })
            })
        })
    }
    /// variable indices strictly increasing inside each product
    pub fn products_increasing(&self) -> bool {
        self.0.iter().all(|x| {
            x.iter().all(|p| {
                let vs: Vec<usize> = p.iter().filter_map(|f| if let Factor::Lit(v, _) = f { Some(*v) } else { None }).collect();
                vs.windows(2).all(|w| w[0] < w[1])
            })
        })
    }
    /// for XOR terms made of single variables: indices strictly increasing inside each term
    pub fn xor_terms_increasing(&self) -> bool {
        self.0.iter().all(|x| {
            let vs: Vec<usize> = x.iter().filter(|p| p.len() == 1).filter_map(|p| if let Factor::Lit(v, _) = &p[0] { Some(*v) } else { None }).collect();
            vs.windows(2).all(|w| w[0] < w[1])
        })
    }
    pub fn has_not(&self) -> bool {
        self.0.iter().any(|x| x.iter().any(|p| p.iter().any(|f| matches!(f, Factor::Lit(_, false)))))
    }
    pub fn max_index(&self) -> usize {
        self.0.iter().flat_map(|x| x.iter().flat_map(|p| p.iter().filter_map(|f| if let Factor::Lit(v, _) = f { Some(*v) } else { None }))).max().unwrap_or(0)
    }
    pub fn terms(&self) -> usize {
        self.0.iter().map(|x| x.len()).sum()
    }
}

// ---------------------------------------------------------------------------------------------

#[derive(Clone, Debug, Hash, Serialize, Deserialize)]
pub enum Obj {
    Cube(CB),
    Ecube(EB),
    Sop(SB),
    Esop(XB),
    Soes(OB),
    /// forms over all 32 variables built by from_cubes: the only size at which contradictory
    /// (zero) cubes are legal arguments of from_cubes
    SopWide(Vec<CB>),
    EsopWide(Vec<CB>),
    SoesWide(Vec<EB>),
}

#[derive(Clone, Debug, Hash, Serialize, Deserialize)]
pub struct Case {
    pub n: usize,
    pub a: Obj,
    /// a second object of the same kind, to check that distinct cubes print distinct text
    pub b: Obj,
    pub ms: Vec<u32>,
}

fn arb_obj(n: usize) -> BoxedStrategy<(Obj, Obj)> {
    prop_oneof![
        3 => (arb_cb(n), arb_cb(n)).prop_map(|(a, b)| (Obj::Cube(a), Obj::Cube(b))),
        3 => (arb_eb(n), arb_eb(n)).prop_map(|(a, b)| (Obj::Ecube(a), Obj::Ecube(b))),
        3 => (arb_sb(std::cmp::min(n, 12), 2), Just(SB::Zero)).prop_map(|(a, b)| (Obj::Sop(a), Obj::Sop(b))),
        3 => (arb_xb(std::cmp::min(n, 12)), Just(XB::Zero)).prop_map(|(a, b)| (Obj::Esop(a), Obj::Esop(b))),
        3 => (arb_ob(std::cmp::min(n, 12), 4), Just(OB::Zero)).prop_map(|(a, b)| (Obj::Soes(a), Obj::Soes(b))),
        1 => vec(arb_cb(32), 0..=4).prop_map(|v| (Obj::SopWide(v), Obj::Sop(SB::Zero))),
        1 => vec(arb_cb(32), 0..=4).prop_map(|v| (Obj::EsopWide(v), Obj::Sop(SB::Zero))),
        1 => vec(arb_eb(32), 0..=4).prop_map(|v| (Obj::SoesWide(v), Obj::Sop(SB::Zero))),
    ]
    .boxed()
}

fn strategy(_t: Tier) -> BoxedStrategy<Case> {
    prop_oneof![3 => 0usize..=4, 5 => 5usize..=12, 2 => 13usize..=32]
        .prop_flat_map(|n| (arb_obj(n), vec(any::<u32>(), 4..=10)).prop_map(move |((a, b), ms)| Case { n, a, b, ms }))
        .boxed()
}

/// the object printed under non-default format specifications (space padding, `+`, `#`): whatever
/// the implementation does with them, the text must remain a formula denoting the object
fn alt_texts<D: std::fmt::Display>(d: &D) -> Vec<(&'static str, String)> {
    vec![
        ("{:>40}", format!("{:>40}", d)),
        ("{:<40}", format!("{:<40}", d)),
        ("{:^60}", format!("{:^60}", d)),
        ("{:+}", format!("{:+}", d)),
        ("{:#}", format!("{:#}", d)),
        ("{:5}", format!("{:5}", d)),
    ]
}

type Rendered = (String, Box<dyn Fn(usize) -> bool>, &'static str, Vec<(&'static str, String)>);

/// (text, value function, kind, texts under other format specifications) of an object
fn render(o: &Obj, n: usize) -> Result<Rendered, String> {
    let nn = std::cmp::min(n, 12);
    Ok(match o {
        Obj::Cube(d) => {
            let c = d.build();
            { let (t, a) = (c.to_string(), alt_texts(&c)); (t, Box::new(move |m| c.value(m)), "cube", a) }
        }
        Obj::Ecube(d) => {
            let c = d.build();
            { let (t, a) = (c.to_string(), alt_texts(&c)); (t, Box::new(move |m| c.value(m)), "ecube", a) }
        }
        Obj::Sop(d) => {
            let c = d.build(nn);
            { let (t, a) = (c.to_string(), alt_texts(&c)); (t, Box::new(move |m| c.value(m)), "sop", a) }
        }
        Obj::Esop(d) => {
            let c = d.build(nn);
            { let (t, a) = (c.to_string(), alt_texts(&c)); (t, Box::new(move |m| c.value(m)), "esop", a) }
        }
        Obj::Soes(d) => {
            let c = d.build(nn);
            { let (t, a) = (c.to_string(), alt_texts(&c)); (t, Box::new(move |m| c.value(m)), "soes", a) }
        }
        Obj::SopWide(v) => {
            let c = volute::sop::Sop::from_cubes(32, v.iter().map(|x| x.build()).collect());
            { let (t, a) = (c.to_string(), alt_texts(&c)); (t, Box::new(move |m| c.value(m)), "sop", a) }
        }
        Obj::EsopWide(v) => {
            let c = volute::sop::Esop::from_cubes(32, v.iter().map(|x| x.build()).collect());
            { let (t, a) = (c.to_string(), alt_texts(&c)); (t, Box::new(move |m| c.value(m)), "esop", a) }
        }
        Obj::SoesWide(v) => {
            let c = volute::sop::Soes::from_cubes(32, v.iter().map(|x| x.build()).collect());
            { let (t, a) = (c.to_string(), alt_texts(&c)); (t, Box::new(move |m| c.value(m)), "soes", a) }
        }
    })
}

pub fn run(c: &Case) -> Verdict {
    let (text, value, kind, alts) = match guard(|| render(&c.a, c.n)) {
        Ok(Ok(x)) => x,
        Ok(Err(e)) => return fail("harness", e),
        Err(p) => return fail(format!("panic:display"), format!("building / printing {:?} panicked: {}", c.a, p)),
    };
    let f = match parse(&text) {
        Ok(f) => f,
        Err(e) => return fail(format!("unparsable:{}", kind), format!("{} {:?} prints as {:?} which is not a formula of the evident grammar: {}", kind, c.a, text, e)),
    };
    let mut ms: Vec<u32> = c.ms.clone();
    let width = std::cmp::min(c.n, 12);
    if matches!(c.a, Obj::SopWide(_) | Obj::EsopWide(_) | Obj::SoesWide(_)) {
        ms.extend([0, !0, 0x5555_5555, 0xaaaa_aaaa]);
    } else if matches!(c.a, Obj::Cube(_) | Obj::Ecube(_)) {
        if c.n <= 5 {
            ms.extend(0..(1u32 << c.n));
        }
        ms.extend([0, !0]);
    } else {
        // forms over `width` variables: all assignments if small, otherwise the generated ones
        // restricted to the width
        if width <= 8 {
            ms = (0..(1u32 << width)).collect();
        } else {
            ms = ms.iter().map(|m| m & ((1u32 << width) - 1)).collect();
            ms.extend([0, (1u32 << width) - 1]);
        }
    }
    for &m in &ms {
        let want = lib!("value", value(m as usize));
        ensure!(f.eval(m as u64) == want, format!("meaning:{}", kind), "{} {:?} prints as {:?}; on assignment {:#b} the text evaluates to {} but value() is {}", kind, c.a, text, m, f.eval(m as u64), want);
    }
    for (spec, t) in &alts {
        let g = match parse(t) {
            Ok(g) => g,
            Err(e) => return fail(format!("unparsable-with-spec:{}", kind), format!("{} {:?} prints as {:?} under `{}` (plain: {:?}), which is not a formula: {}", kind, c.a, t, spec, text, e)),
        };
        for &m in &ms {
            let want = lib!("value", value(m as usize));
            ensure!(g.eval(m as u64) == want, format!("meaning-with-spec:{}", kind), "{} {:?} prints as {:?} under `{}`; on assignment {:#b} the text evaluates to {} but value() is {}", kind, c.a, t, spec, m, g.eval(m as u64), want);
        }
    }
    ensure!(f.products_increasing(), format!("order:{}", kind), "{:?}: variables are not in increasing order inside a product", text);
    if kind == "ecube" || kind == "soes" {
        ensure!(f.xor_terms_increasing(), format!("order:{}", kind), "{:?}: variables are not in increasing order inside an XOR term", text);
    }
    // distinct cubes print distinct text
    match (&c.a, &c.b) {
        (Obj::Cube(x), Obj::Cube(y)) => {
            let (p, q) = (lib!("cube", x.build()), lib!("cube", y.build()));
            ensure!((p == q) == (p.to_string() == q.to_string()), "distinct-text:cube", "cubes {:?} and {:?} are {} but print as {:?} and {:?}", x, y, if p == q { "equal" } else { "different" }, p.to_string(), q.to_string());
        }
        (Obj::Ecube(x), Obj::Ecube(y)) => {
            let (p, q) = (lib!("ecube", x.build()), lib!("ecube", y.build()));
            ensure!((p == q) == (p.to_string() == q.to_string()), "distinct-text:ecube", "exclusive cubes {:?} and {:?} are {} but print as {:?} and {:?}", x, y, if p == q { "equal" } else { "different" }, p.to_string(), q.to_string());
        }
        _ => {}
    }
    let mut labels = vec![format!("kind:{}", kind), format!("n:{}", match c.n { 0..=4 => "<=4", 5..=12 => "5-12", _ => "13-32" })];
    if f.max_index() >= 10 {
        labels.push("two-digit-index".into());
    }
    if f.has_not() {
        labels.push("has-not".into());
    }
    if f.terms() >= 2 {
        labels.push("multi-term".into());
    }
    pass(f.has_not() || f.max_index() >= 10 || f.terms() >= 2, labels)
}

fn enumerate(t: Tier, shard: usize, nshards: usize, f: &mut dyn FnMut(Case) -> bool) {
    let mut sc = ShardCounter::new(shard, nshards);
    // all cubes and exclusive cubes, n <= 4, each paired with every other (distinct text)
    for n in 0..=4usize {
        let mut cubes = vec![CB::Zero];
        for p in 0..(1u32 << n) {
            for ng in 0..(1u32 << n) {
                if p & ng == 0 {
                    cubes.push(CB::FromMask(p, ng));
                }
            }
        }
        for (i, a) in cubes.iter().enumerate() {
            // pair with the next few cubes and with itself built another way
            for d in [0usize, 1, 2, 7] {
                let b = &cubes[(i + d) % cubes.len()];
                if sc.mine() && !f(Case { n, a: Obj::Cube(a.clone()), b: Obj::Cube(b.clone()), ms: vec![] }) {
                    return;
                }
            }
        }
        let mut terms = Vec::new();
        for vars in 0..(1u32 << n) {
            for x in [false, true] {
                terms.push(EB::FromVars((0..n).filter(|v| (vars >> v) & 1 != 0).collect(), x));
            }
        }
        for (i, a) in terms.iter().enumerate() {
            for d in [0usize, 1, 2, 5] {
                let b = &terms[(i + d) % terms.len()];
                if sc.mine() && !f(Case { n, a: Obj::Ecube(a.clone()), b: Obj::Ecube(b.clone()), ms: vec![] }) {
                    return;
                }
            }
        }
    }
    // all Sop / Esop / Soes with <= 2 (quick) / <= 3 (thorough) terms over n <= 3
    for n in 0..=3usize {
        let mut cubes = Vec::new();
        for p in 0..(1u32 << n) {
            for ng in 0..(1u32 << n) {
                if p & ng == 0 {
                    cubes.push(CB::FromMask(p, ng));
                }
            }
        }
        let mut terms = Vec::new();
        for vars in 0..(1u32 << n) {
            for x in [false, true] {
                terms.push(EB::FromVars((0..n).filter(|v| (vars >> v) & 1 != 0).collect(), x));
            }
        }
        let max_len = if n == 3 { t.pick(2usize, 3) } else { 3 };
        for len in 0..=max_len {
            let k = cubes.len();
            for idx in 0..k.pow(len as u32) {
                let mut r = idx;
                let mut cs = Vec::new();
                for _ in 0..len {
                    cs.push(cubes[r % k].clone());
                    r /= k;
                }
                if sc.mine() && !f(Case { n, a: Obj::Sop(SB::FromCubes(cs.clone())), b: Obj::Sop(SB::Zero), ms: vec![] }) {
                    return;
                }
                if sc.mine() && !f(Case { n, a: Obj::Esop(XB::FromCubes(cs)), b: Obj::Esop(XB::Zero), ms: vec![] }) {
                    return;
                }
            }
            let k = terms.len();
            for idx in 0..k.pow(len as u32) {
                let mut r = idx;
                let mut cs = Vec::new();
                for _ in 0..len {
                    cs.push(terms[r % k].clone());
                    r /= k;
                }
                if sc.mine() && !f(Case { n, a: Obj::Soes(OB::FromCubes(cs)), b: Obj::Soes(OB::Zero), ms: vec![] }) {
                    return;
                }
            }
        }
    }
}

// ---------------------------------------------------------------------------------------------
// very long texts (hundreds of KiB): the minterm cover of a dense function of 14 or 15 variables

#[derive(Clone, Debug, Hash, Serialize, Deserialize)]
pub struct HugeCase {
    pub f: Tt,
    pub esop: bool,
}

fn strategy_huge(_t: Tier) -> BoxedStrategy<HugeCase> {
    (prop_oneof![3 => Just(14usize), 1 => Just(15usize)], any::<bool>())
        .prop_flat_map(|(n, esop)| {
            // mostly dense functions (uniform words): about 2^(n-1) minterms / monomials
            let dense = vec(any::<u64>(), crate::model::words_for(n)).prop_map(move |w| Tt::from_words(n, w));
            prop_oneof![3 => dense.boxed(), 1 => crate::gen::arb_tt(n)].prop_map(move |f| HugeCase { f, esop })
        })
        .boxed()
}

fn run_huge(c: &HugeCase) -> Verdict {
    let n = c.f.n;
    let l = to_lut(&c.f);
    // Sop: minterm cover; Esop: the Reed-Muller form (up to 2^n monomials)
    let (text, vals): (String, Vec<bool>) = if c.esop {
        let e = lib!("Esop::from(&Lut)", volute::sop::Esop::from(&l));
        (lib!("Display", e.to_string()), (0..c.f.size()).step_by(97).map(|m| e.value(m)).collect())
    } else {
        let e = lib!("Sop::from(&Lut)", volute::sop::Sop::from(&l));
        (lib!("Display", e.to_string()), (0..c.f.size()).step_by(97).map(|m| e.value(m)).collect())
    };
    let f = match parse(&text) {
        Ok(f) => f,
        Err(e) => return fail("huge:unparsable", format!("the {}-byte text of the {} of {} is not a formula: {}", text.len(), if c.esop { "Esop" } else { "Sop" }, c.f.short(), e)),
    };
    // evaluate the text on every assignment: products that are complete minterms are tabulated
    // (Sop), monomials are expanded by their up-set parity (Esop); anything else is evaluated directly
    let size = c.f.size();
    let mut table = vec![false; size];
    let mut rest: Vec<&Vec<Factor>> = Vec::new();
    let mut monos: Vec<usize> = Vec::new();
    if c.esop {
        ensure!(f.0.len() == 1, "huge:shape", "the text of an Esop contains `|`");
        for p in &f.0[0] {
            let pos_only = p.iter().all(|x| matches!(x, Factor::Lit(_, true) | Factor::Const(true)));
            if pos_only {
                monos.push(p.iter().filter_map(|x| if let Factor::Lit(v, _) = x { Some(1usize << v) } else { None }).fold(0, |a, b| a | b));
            } else {
                rest.push(p);
            }
        }
        // value at m = parity of the monomials contained in m: subset-sum (zeta) transform over GF(2)
        for s in &monos {
            if *s < size {
                table[*s] ^= true;
            } else {
                return fail("huge:var-range", format!("the text mentions a variable >= {}", n));
            }
        }
        for v in 0..n {
            for m in 0..size {
                if (m >> v) & 1 != 0 && table[m ^ (1 << v)] {
                    table[m] ^= true;
                }
            }
        }
        for m in 0..size {
            for p in &rest {
                let t = p.iter().all(|x| match x {
                    Factor::Const(b) => *b,
                    Factor::Lit(v, pos) => ((m >> v) & 1 != 0) == *pos,
                });
                table[m] ^= t;
            }
        }
    } else {
        for x in &f.0 {
            ensure!(x.len() == 1, "huge:shape", "the text of a Sop contains `^`");
            let p = &x[0];
            let lits: Vec<(usize, bool)> = p.iter().filter_map(|x| if let Factor::Lit(v, pos) = x { Some((*v, *pos)) } else { None }).collect();
            let mut seen = 0usize;
            let mut idx = 0usize;
            let mut ok = lits.len() == n && p.len() == n;
            for (v, pos) in &lits {
                if *v >= n || (seen >> v) & 1 != 0 {
                    ok = false;
                    break;
                }
                seen |= 1 << v;
                if *pos {
                    idx |= 1 << v;
                }
            }
            if ok {
                table[idx] = true;
            } else {
                rest.push(p);
            }
        }
        ensure!(rest.len() <= 64, "huge:shape", "the text of a minterm cover contains {} products that are not minterms of the {} variables", rest.len(), n);
        for m in 0..size {
            if !table[m] {
                table[m] = rest.iter().any(|p| p.iter().all(|x| match x {
                    Factor::Const(b) => *b,
                    Factor::Lit(v, pos) => ((m >> v) & 1 != 0) == *pos,
                }));
            }
        }
    }
    for m in 0..size {
        ensure!(table[m] == c.f.get(m), "huge:meaning", "the {}-byte text of the {} of {} evaluates to {} on assignment {} but the function is {} there", text.len(), if c.esop { "Esop" } else { "Sop" }, c.f.short(), table[m], m, c.f.get(m));
    }
    for (k, m) in (0..size).step_by(97).enumerate() {
        ensure!(vals[k] == c.f.get(m), "huge:value", "value({}) of the form built from {} is {}", m, c.f.short(), vals[k]);
    }
    pass(text.len() > 270_000, vec![format!("kind:{}", if c.esop { "esop" } else { "sop" }), format!("KiB:{}", std::cmp::min(text.len() / 102_400, 9) * 100)])
}

pub fn def() -> PropDef {
    PropDef {
        id: "C16",
        rule: "cases = (n, object, second object, assignments): a Cube, Ecube, Sop, Esop or Soes built from a build description (every constructor, operator results included; Sop/Esop/Soes over min(n,12) variables, cubes and exclusive cubes over up to 32, full-support objects included, so that two-digit indices and the all-variables boundary occur). to_string() is read by the harness's own tokenizer + parser for `or := xor ('|' xor)*, xor := prod ('^' prod)*, prod := ('0' | '1' | '!'? 'x' digits)+` (white space insignificant) — the text must parse completely — and evaluated on all assignments (<= 8 variables; cubes: n<=5) or on generated 32-bit assignments plus all-zeros/all-ones otherwise, and compared with the object's own value(). The same must hold for the text printed under the format specifications {:>40}, {:<40}, {:^60}, {:+}, {:#}, {:5} (space padding is white space). Variable indices must be strictly increasing inside each product and inside each XOR term; for cubes and exclusive cubes a == b iff their texts are equal. Sop/Esop/Soes over all 32 variables built by from_cubes from up to 4 cubes, contradictory cubes included (legal only at that size), are printed and evaluated on generated 32-bit assignments. Non-trivial = the text contains a `!`, a two-digit index or >= 2 terms. Exhaustive: all cubes and exclusive cubes of n<=4 (each paired with itself and three neighbours for the distinct-text check); all Sop/Esop/Soes with <= 3 terms over n<=2 and <= 2 (quick) / <= 3 (thorough) terms over n=3.",
        assumptions: vec!["the `evident grammar` is the one stated in the property; value() of the object is the reference for the meaning"],
        subs: vec![Box::new(Sub {
            name: "display",
            rule: "see property rule",
            strategy,
            cases: (300_000, 4_000_000),
            exhaustive: Some(enumerate),
            exhaustive_note: "all cubes/ecubes n<=4; all Sop/Esop/Soes with <=3 terms over n<=2 and <=2 (quick) / <=3 (thorough) terms over n=3",
            run,
        }),
        Box::new(Sub {
            name: "hugetext",
            rule: "texts of hundreds of KiB: Sop::from(&f) (minterm cover) and Esop::from(&f) (Reed-Muller form) of generated (mostly dense) functions f of 14..=15 variables are printed, the whole text parsed, and evaluated on EVERY assignment (complete minterms are tabulated, positive monomials expanded by a subset-parity transform, any other product evaluated directly) against f. Non-trivial = text longer than 270 000 bytes.",
            strategy: strategy_huge,
            cases: (16, 300),
            exhaustive: None,
            exhaustive_note: "",
            run: run_huge,
        })],
    }
}
