//! C10 — fixed-size LutN and dynamic Lut behave identically; conversions are lossless.

use proptest::prelude::*;
use serde::{Deserialize, Serialize};

use crate::adapter::Fam;
use crate::common::*;
use crate::engine::*;
use crate::gen::*;
use crate::model::{mask_for, Tt};
use crate::ops::*;
use crate::{ensure, lib};

// ---------------------------------------------------------------------------------------------
// differential histories

#[derive(Clone, Debug, Hash, Serialize, Deserialize)]
pub struct Case {
    pub h: History,
}

const OPTS: OpOptions = OpOptions {
    random: false,
    raw_hex: true,
    canon_max_n: 7,
    successor: true,
};

fn strategy(t: Tier) -> BoxedStrategy<Case> {
    let max_len = t.pick(24, 60);
    arb_n(0, 13)
        .prop_flat_map(move |n| {
            let len = if n >= 10 { max_len / 3 } else { max_len };
            arb_history(n, Fam::Dyn, OPTS, 1, len).prop_map(|mut h| {
                // Default is not a common operation (Lut::default() has 0 variables)
                for s in h.steps.iter_mut() {
                    if s.op == Op::Default {
                        s.op = Op::Zero;
                    }
                }
                Case { h }
            })
        })
        .boxed()
}

pub fn run(c: &Case) -> Verdict {
    let n = c.h.n;
    let d = run_history(Fam::Dyn, &c.h, |_, _, _, _, _, _| Ok(()));
    let s = run_history(Fam::Static, &c.h, |_, _, _, _, _, _| Ok(()));
    let (d, s) = match (d, s) {
        (Ok(d), Ok(s)) => (d, s),
        (Err(e1), Err(_)) => return pass(false, vec![format!("skipped:{}", e1.chars().take(20).collect::<String>())]),
        (Err(e), Ok(_)) => return fail("load-differs", format!("Lut cannot load the initial pool but Lut{} can: {}", n, e)),
        (Ok(_), Err(e)) => return fail("load-differs", format!("Lut{} cannot load the initial pool but Lut can: {}", n, e)),
    };
    let mut kinds = std::collections::BTreeSet::new();
    for (k, (od, os)) in d.iter().zip(s.iter()).enumerate() {
        let st = &c.h.steps[k];
        ensure!(
            od == os,
            format!("differs:{}", format!("{:?}", st.op).split('(').next().unwrap_or("")),
            "step {} ({:?} a={} b={} dst={}) on n={}: Lut gives {:?} but Lut{} gives {:?}",
            k, st.op, st.a, st.b, st.dst, n, od, n, os
        );
        kinds.insert(format!("{:?}", st.op).split('(').next().unwrap_or("").to_string());
    }
    ensure!(d.len() == s.len(), "length", "histories stop at different points: Lut after {} steps, Lut{} after {}", d.len(), n, s.len());
    let mut labels = vec![format!("n:{}", n), format!("size:{}", n_label(n))];
    if d.last() == Some(&Outcome::Panic) {
        labels.push("both-panicked-at-same-step".into());
    }
    for k in kinds {
        labels.push(format!("op:{}", k));
    }
    let nontrivial = c.h.init.iter().any(|t| !t.is_const()) && c.h.steps.iter().any(|s| !matches!(s.op, Op::Zero | Op::One | Op::Parity | Op::Majority | Op::NthVar(_) | Op::Threshold(_) | Op::Equals(_) | Op::Symmetric(_) | Op::FromBlocks(_)));
    pass(nontrivial, labels)
}

// ---------------------------------------------------------------------------------------------
// conversions

#[derive(Clone, Debug, Hash, Serialize, Deserialize)]
pub struct ConvCase {
    pub t: Tt,
}

fn strategy_conv(_t: Tier) -> BoxedStrategy<ConvCase> {
    arb_n(0, 14).prop_flat_map(|n| arb_tt(n).prop_map(|t| ConvCase { t })).boxed()
}

fn run_conv(c: &ConvCase) -> Verdict {
    let n = c.t.n;
    let l = match load(Fam::Dyn, &c.t) {
        Ok(x) => x,
        Err(_) => return pass(false, vec!["skipped:unloadable".into()]),
    };
    let mut labels = vec![format!("n:{}", n)];
    // Lut -> LutN fails exactly when the variable counts differ
    for big_n in 0..=13usize {
        let r = lib!("TryFrom<Lut> for LutN", l.convert(big_n));
        match r {
            Ok(x) => {
                ensure!(big_n == n, "try_from:accepts-wrong-size", "Lut{}::try_from(Lut of {} variables) = Ok", big_n, n);
                if let Err(e) = same_fn(x.as_ref(), &c.t) {
                    return fail("try_from:value", format!("Lut{}::try_from({}): {}", big_n, c.t.short(), e));
                }
                ensure!(x.blocks() == l.blocks(), "try_from:blocks", "Lut{}::try_from({}) has blocks {:x?}, the Lut has {:x?}", big_n, c.t.short(), x.blocks(), l.blocks());
                // and back: identity
                let back = lib!("From<LutN> for Lut", x.convert(n)).map_err(|_| ());
                match back {
                    Ok(y) => {
                        ensure!(y.fam() == Fam::Dyn && y.n() == n, "from:size", "Lut::from(Lut{}) has {} variables", n, y.n());
                        ensure!(lib!("==", y.eq_(l.as_ref())), "roundtrip:lut", "Lut::from(Lut{}::try_from(l)) != l for l = {}", n, c.t.short());
                        let again = lib!("TryFrom", y.convert(n));
                        match again {
                            Ok(z) => ensure!(lib!("==", z.eq_(x.as_ref())), "roundtrip:static", "Lut{}::try_from(Lut::from(x)) != x for x = {}", n, c.t.short()),
                            Err(()) => return fail("roundtrip:static-err", format!("Lut{}::try_from(Lut::from(x)) = Err for x = {}", n, c.t.short())),
                        }
                    }
                    Err(()) => return fail("from:err", "harness bug: LutN -> Lut cannot fail".to_string()),
                }
                labels.push("roundtrip".into());
            }
            Err(()) => {
                ensure!(big_n != n, "try_from:rejects-right-size", "Lut{}::try_from(Lut of {} variables) = Err", big_n, n);
            }
        }
    }
    pass(!c.t.is_const() && n <= 12, labels)
}

// ---------------------------------------------------------------------------------------------
// integer conversions of Lut3..Lut6

#[derive(Clone, Debug, Hash, Serialize, Deserialize)]
pub struct IntCase {
    pub n: usize,
    pub v: u64,
}

fn strategy_int(_t: Tier) -> BoxedStrategy<IntCase> {
    prop_oneof![Just(5usize), Just(6usize), Just(3usize), Just(4usize)]
        .prop_flat_map(|n| {
            prop_oneof![4 => any::<u64>(), 1 => (0u32..64).prop_map(|b| 1u64 << b), 1 => (0u32..64).prop_map(|b| !(1u64 << b))]
                .prop_map(move |v| IntCase { n, v: v & mask_for(n) })
        })
        .boxed()
}

fn run_int(c: &IntCase) -> Verdict {
    let n = c.n;
    let f = Fam::Static.get();
    let v = c.v & mask_for(n);
    let x = match lib!("From<uK> for LutK", f.from_int(n, v)) {
        Some(x) => x,
        None => return fail("harness", "harness bug: no integer conversion for this size"),
    };
    let want = Tt::from_fn(n, |m| (v >> m) & 1 != 0);
    if let Err(e) = same_fn(x.as_ref(), &want) {
        return fail("from_int", format!("Lut{}::from({:#x}): bit m of the integer must be f(m): {}", n, v, e));
    }
    let back = lib!("From<LutK> for uK", x.to_int());
    ensure!(back == Some(v), "to_int:roundtrip", "u{}::from(Lut{}::from({:#x})) = {:x?}", 1 << n, n, v, back);
    // a table built another way converts to sum f(m) 2^m
    let y = match load(Fam::Static, &want) {
        Ok(y) => y,
        Err(_) => return pass(false, vec!["skipped:unloadable".into()]),
    };
    let got = lib!("From<LutK> for uK", y.to_int());
    ensure!(got == Some(v), "to_int", "u{}::from({}) = {:x?}, expected {:#x}", 1 << n, want.short(), got, v);
    // and through the dynamic type: uN::from(LutN::try_from(Lut::from(LutN::from(v))))
    let viadyn = lib!("conversion chain", x.convert(n).and_then(|l| l.convert(n)));
    match viadyn {
        Ok(z) => ensure!(lib!("to_int", z.to_int()) == Some(v), "to_int:via-lut", "integer changes through Lut{0} -> Lut -> Lut{0}", n),
        Err(()) => return fail("conv:err", format!("Lut{0} -> Lut -> Lut{0} failed", n)),
    }
    pass(v != 0 && v != mask_for(n), vec![format!("n:{}", n)])
}

fn enumerate_int(_t: Tier, shard: usize, nshards: usize, f: &mut dyn FnMut(IntCase) -> bool) {
    let mut sc = ShardCounter::new(shard, nshards);
    for n in [3usize, 4] {
        for v in 0..(1u64 << (1 << n)) {
            if sc.mine() && !f(IntCase { n, v }) {
                return;
            }
        }
    }
}

// ---------------------------------------------------------------------------------------------
// long function lists (bdd_complexity is the one operation taking arbitrarily many tables)

#[derive(Clone, Debug, Hash, Serialize, Deserialize)]
pub struct ListCase {
    pub n: usize,
    pub base: Vec<Tt>,
    pub len: usize,
    pub seed: u64,
}

fn strategy_list(_t: Tier) -> BoxedStrategy<ListCase> {
    arb_n(0, 13)
        .prop_flat_map(|n| {
            let t = crate::model::words_for(n);
            // total size log-uniform between 1 and 2^17.6 words
            (proptest::collection::vec(arb_tt(n), 1..=4), 0u32..=176, any::<u64>()).prop_map(move |(base, e, seed)| {
                let words = (2f64).powf(e as f64 / 10.0) as usize;
                ListCase { n, base, len: std::cmp::max(1, words / t), seed }
            })
        })
        .boxed()
}

fn run_list(c: &ListCase) -> Verdict {
    let mut lists: Vec<Vec<crate::adapter::T>> = Vec::new();
    for fam in [Fam::Dyn, Fam::Static] {
        let mut base = Vec::new();
        for b in &c.base {
            for t in [b.clone(), b.not()] {
                match load(fam, &t) {
                    Ok(x) => base.push(x),
                    Err(_) => return pass(false, vec!["skipped:unloadable".into()]),
                }
            }
        }
        let mut s = c.seed | 1;
        let mut v = Vec::with_capacity(c.len);
        for _ in 0..c.len {
            s ^= s << 13;
            s ^= s >> 7;
            s ^= s << 17;
            v.push(base[(s % base.len() as u64) as usize].dup());
        }
        lists.push(v);
    }
    let count = |v: &Vec<crate::adapter::T>| -> usize {
        let others: Vec<&dyn crate::adapter::Tab> = v[1..].iter().map(|t| t.as_ref()).collect();
        v[0].bdd_complexity_with(&others)
    };
    let d = lib!("Lut::bdd_complexity", count(&lists[0]));
    let s = lib!("LutN::bdd_complexity", count(&lists[1]));
    ensure!(d == s, "differs:bdd-list", "bdd_complexity of a list of {} functions of {} variables (drawn from {} base functions and their complements): Lut gives {} but Lut{} gives {}", c.len, c.n, c.base.len(), d, c.n, s);
    let words = c.len * crate::model::words_for(c.n);
    pass(c.len >= 2 && !c.base[0].is_const(), vec![format!("n:{}", c.n), format!("words:{}", match words { 0..=999 => "<1e3", 1000..=65535 => "1e3..2^16", _ => ">=2^16" })])
}

// ---------------------------------------------------------------------------------------------
// canonization at sizes the histories cannot afford: same table AND same certificate

#[derive(Clone, Debug, Hash, Serialize, Deserialize)]
pub struct CanonCase {
    /// true: p_canonization, false: n_canonization
    pub perm: bool,
    pub f: Tt,
}

fn strategy_canon(_t: Tier) -> BoxedStrategy<CanonCase> {
    // P walks n! permutations: n = 8, 9 and (one case in six) 10; N walks 2^(n+1) masks: n = 8..=12
    prop_oneof![
        3 => prop_oneof![3 => Just(8usize), 2 => Just(9usize), 1 => Just(10usize)].prop_flat_map(|n| crate::props::c04::arb_canon_tt(n).prop_map(|f| CanonCase { perm: true, f })),
        2 => (8usize..=12).prop_flat_map(|n| crate::props::c04::arb_canon_tt(n).prop_map(|f| CanonCase { perm: false, f })),
    ]
    .boxed()
}

fn run_canon(c: &CanonCase) -> Verdict {
    let n = c.f.n;
    let (l, s) = match (load(Fam::Dyn, &c.f), load(Fam::Static, &c.f)) {
        (Ok(a), Ok(b)) => (a, b),
        _ => return pass(false, vec!["skipped:unloadable".into()]),
    };
    let what = if c.perm { "p_canonization" } else { "n_canonization" };
    let ((tl, pl, ml), (ts, ps, ms)) = if c.perm {
        let a = lib!("Lut::p_canonization", l.p_canon());
        let b = lib!("LutN::p_canonization", s.p_canon());
        ((a.0, a.1, 0u32), (b.0, b.1, 0u32))
    } else {
        let a = lib!("Lut::n_canonization", l.n_canon());
        let b = lib!("LutN::n_canonization", s.n_canon());
        ((a.0, vec![], a.1), (b.0, vec![], b.1))
    };
    ensure!(tl.blocks() == ts.blocks(), "canon:table", "{} of {}: Lut gives the table {:x?}, Lut{} gives {:x?}", what, c.f.short(), tl.blocks(), n, ts.blocks());
    ensure!(pl == ps && ml == ms, "canon:certificate", "{} of {}: Lut returns the certificate (perm {:?}, mask {:#x}) but Lut{} returns (perm {:?}, mask {:#x})", what, c.f.short(), pl, ml, n, ps, ms);
    pass(to_model(tl.as_ref()) != c.f, vec![format!("n:{}", n), format!("group:{}", if c.perm { "p" } else { "n" })])
}

pub fn def() -> PropDef {
    PropDef {
        id: "C10",
        rule: "diff: cases = a history over a pool of 4 generated tables of one size N in 0..=12 (1..24 steps quick / 1..60 thorough) drawn from the whole common API: constructors with arguments, from_blocks, from_hex_string(any string), all_functions().nth(k), operators in every form, flip/swap/swap_adjacent (copying and in place), cofactors, from_cofactors, bit setters, canonizations (N<=7), hooked successor, round trips, value/get_bit, top_decomposition/unateness, the five text forms and the formatting traits under ten other format specifications (`#`, width, alignment, fill, precision, `+`), num_vars/num_bits/num_blocks/blocks, cmp/partial_cmp/==/</<=/>/>=, bdd_complexity of 1..4 slots and of the empty list. The same history is interpreted on Lut and on the alias LutN; after every step the outcomes must be identical: same blocks, same perm/mask, same classification, same counts, same strings, same Ordering, same Ok/Err, panic on the same step. Non-trivial = a non-constant initial table and at least one step that is not a constructor. bddlist: bdd_complexity (the one operation taking arbitrarily many tables) on lists of 1 .. 2^17.6 words in total (log-uniform), drawn from 1..4 generated base functions and their complements: Lut and LutN must agree (what the count should be is C07's statement and is not judged here). conv: for a generated Lut of n variables, LutN::try_from is Ok exactly for N = n (all N in 0..=12), preserves blocks and value, and Lut->LutN->Lut and LutN->Lut->LutN are identities. int: From<u8/u16/u32/u64> for Lut3..6 has value(m) = bit m, converting back gives the integer (also for a table built by another route and through the dynamic type); exhaustive for u8 and u16, generated for u32/u64.",
        assumptions: vec![
            "Default::default() is excluded from the differential (Lut::default() has 0 variables by design)",
            "canonization at N = 8 is exercised for both families in C04/C05, at N >= 9 nowhere (minutes per call)",
        ],
        subs: vec![
            Box::new(Sub { name: "diff", rule: "Lut vs LutN on the same history", strategy, cases: (60_000, 1_000_000), exhaustive: None, exhaustive_note: "", run }),
            Box::new(Sub { name: "conv", rule: "Lut <-> LutN conversions", strategy: strategy_conv, cases: (60_000, 600_000), exhaustive: None, exhaustive_note: "", run: run_conv }),
            Box::new(Sub { name: "canon-large", rule: "p_canonization for N in {8, 9, 10} and n_canonization for N in 8..=12 on generated tables (incl. symmetric, partially symmetric, weighted-vote classes): Lut and LutN must return the same table and the same certificate (what the representative should be is C04's statement)", strategy: strategy_canon, cases: (60, 1500), exhaustive: None, exhaustive_note: "", run: run_canon }),
            Box::new(Sub { name: "bddlist", rule: "long lists", strategy: strategy_list, cases: (2_000, 40_000), exhaustive: None, exhaustive_note: "", run: run_list }),
            Box::new(Sub {
                name: "int",
                rule: "integer conversions",
                strategy: strategy_int,
                cases: (200_000, 4_000_000),
                exhaustive: Some(enumerate_int),
                exhaustive_note: "all u8 (Lut3) and all u16 (Lut4) values",
                run: run_int,
            }),
        ],
    }
}
