//! C03 — flip, swap, swap_adjacent, cofactors and Shannon recomposition are exact.

use proptest::collection::vec;
use proptest::prelude::*;
use serde::{Deserialize, Serialize};

use crate::adapter::Fam;
use crate::common::*;
use crate::engine::*;
use crate::gen::*;
use crate::model::Tt;
use crate::{ensure, lib};

#[derive(Clone, Debug, Hash, Serialize, Deserialize)]
pub struct Case {
    pub fam: Fam,
    pub f: Tt,
    pub c0: Tt,
    pub c1: Tt,
    /// index pairs to exercise ((i, j); i alone is used for flip/cofactors)
    pub idx: Vec<(usize, usize)>,
}

fn strategy(_t: Tier) -> BoxedStrategy<Case> {
    // the dynamic type has no size limit: about one case in 4000 uses 15..=20 variables (tables of
    // 512 .. 16384 words), two index pairs
    let sizes = prop_oneof![
        4000 => arb_fam_n(1, 14),
        1 => prop_oneof![3 => 15usize..=17, 2 => 18usize..=20].prop_map(|n| (Fam::Dyn, n)),
    ];
    sizes
        .prop_flat_map(|(fam, n)| {
            if n > 14 {
                // every second pair from the top three variables: run lengths of 2^(min(i,j)-6) words only
                // get long there (a 256-word buffer is first exceeded at min(i,j) = 15)
                let top = (n - 3..n, n - 3..n).boxed();
                return (arb_tt(n), arb_tt(n), arb_tt(n), vec(prop_oneof![arb_ij(n), top], 2..=3)).prop_map(move |(f, c0, c1, idx)| Case { fam, f, c0, c1, idx }).boxed();
            }
            let idx = if n <= 5 {
                // all pairs
                let mut v = Vec::new();
                for i in 0..n {
                    for j in 0..n {
                        v.push((i, j));
                    }
                }
                Just(v).boxed()
            } else {
                vec(arb_ij(n), 1..=6).boxed()
            };
            (arb_tt(n), arb_tt(n), arb_tt(n), idx).prop_map(move |(f, c0, c1, idx)| Case { fam, f, c0, c1, idx }).boxed()
        })
        .boxed()
}

pub fn run(c: &Case) -> Verdict {
    let (x, l0, l1) = match (load(c.fam, &c.f), load(c.fam, &c.c0), load(c.fam, &c.c1)) {
        (Ok(a), Ok(b), Ok(d)) => (a, b, d),
        _ => return pass(false, vec!["skipped:unloadable".into()]),
    };
    let n = c.f.n;
    let fl = c.fam.label();
    let x_blocks = x.blocks();
    let mut labels = base_labels(c.fam, &c.f);
    let mut nontrivial = false;
    let mut done_i = std::collections::HashSet::new();
    for &(i, j) in &c.idx {
        ensure!(i < n && j < n, "harness:index", "harness bug: index out of range in case");
        // ---- single-index operations on i -----------------------------------------------
        if done_i.insert(i) {
            let want = c.f.flip(i);
            let r = lib!("flip", x.flip(i));
            if let Err(e) = same_fn(r.as_ref(), &want) {
                return fail("flip", format!("{}::flip({}) of {}: {}", fl, i, c.f.short(), e));
            }
            let r2 = lib!("flip_inplace", { let mut t = x.dup(); t.flip_inplace(i); t });
            if let Err(e) = same_fn(r2.as_ref(), &want) {
                return fail("flip_inplace", format!("{}::flip_inplace({}) of {}: {}", fl, i, c.f.short(), e));
            }
            let w0 = c.f.cofactor(i, false);
            let w1 = c.f.cofactor(i, true);
            let (k0, k1) = lib!("cofactors", x.cofactors(i));
            if let Err(e) = same_fn(k0.as_ref(), &w0) {
                return fail("cofactor0", format!("{}::cofactors({}).0 of {}: {}", fl, i, c.f.short(), e));
            }
            if let Err(e) = same_fn(k1.as_ref(), &w1) {
                return fail("cofactor1", format!("{}::cofactors({}).1 of {}: {}", fl, i, c.f.short(), e));
            }
            // recomposition of the library's own cofactors gives f back
            let back = lib!("from_cofactors", k0.from_cofactors(k1.as_ref(), i));
            if let Err(e) = same_fn(back.as_ref(), &c.f) {
                return fail("recompose", format!("{}::from_cofactors(cofactors(f,{}),{}) != f for f={}: {}", fl, i, i, c.f.short(), e));
            }
            // Shannon composition of two arbitrary functions
            // the same object as both cofactors: the result is c0 made independent of x_i
            let wanta = Tt::from_cofactors(&c.c0, &c.c0, i);
            let ra = lib!("from_cofactors with the same object twice", l0.from_cofactors(l0.as_ref(), i));
            if let Err(e) = same_fn(ra.as_ref(), &wanta) {
                return fail("from_cofactors:alias", format!("{}::from_cofactors(c, c, {}) with the same object c={} as both cofactors: {}", fl, i, c.c0.short(), e));
            }
            let wantc = Tt::from_cofactors(&c.c0, &c.c1, i);
            let rc = lib!("from_cofactors", l0.from_cofactors(l1.as_ref(), i));
            if let Err(e) = same_fn(rc.as_ref(), &wantc) {
                return fail("from_cofactors", format!("{}::from_cofactors(c0={}, c1={}, {}): {}", fl, c.c0.short(), c.c1.short(), i, e));
            }
            if c.f.depends_on(i) {
                nontrivial = true;
            }
            labels.push(format!("var:{}", if i <= 5 { "in-word" } else { "cross-word" }));
        }
        // ---- swaps ----------------------------------------------------------------------
        let want = c.f.swap(i, j);
        let r = lib!("swap", x.swap(i, j));
        if let Err(e) = same_fn(r.as_ref(), &want) {
            return fail("swap", format!("{}::swap({}, {}) of {}: {}", fl, i, j, c.f.short(), e));
        }
        let r2 = lib!("swap_inplace", { let mut t = x.dup(); t.swap_inplace(i, j); t });
        if let Err(e) = same_fn(r2.as_ref(), &want) {
            return fail("swap_inplace", format!("{}::swap_inplace({}, {}) of {}: {}", fl, i, j, c.f.short(), e));
        }
        if j == i + 1 {
            let r3 = lib!("swap_adjacent", { let mut t = x.dup(); t.swap_adjacent(i) });
            if let Err(e) = same_fn(r3.as_ref(), &want) {
                return fail("swap_adjacent", format!("{}::swap_adjacent({}) of {}: {}", fl, i, c.f.short(), e));
            }
            let r4 = lib!("swap_adjacent_inplace", { let mut t = x.dup(); t.swap_adjacent_inplace(i); t });
            if let Err(e) = same_fn(r4.as_ref(), &want) {
                return fail("swap_adjacent_inplace", format!("{}::swap_adjacent_inplace({}) of {}: {}", fl, i, c.f.short(), e));
            }
            labels.push("swap_adjacent".into());
        }
        let (hi, lo) = (std::cmp::max(i, j), std::cmp::min(i, j));
        labels.push(format!(
            "regime:{}",
            if i == j { "i=j" } else if hi <= 5 { "both<=5" } else if lo <= 5 { "j<=5<i" } else { "both>=6" }
        ));
        if i != j && want != c.f {
            nontrivial = true;
        }
    }
    ensure!(x.blocks() == x_blocks, "operand-changed", "a copying transform changed its receiver {}", c.f.short());
    pass(nontrivial, labels)
}

fn enumerate(t: Tier, shard: usize, nshards: usize, f: &mut dyn FnMut(Case) -> bool) {
    let max_n = t.pick(3, 4);
    let mut sc = ShardCounter::new(shard, nshards);
    for fam in [Fam::Dyn, Fam::Static] {
        for n in 1..=max_n {
            let mut idx = Vec::new();
            for i in 0..n {
                for j in 0..n {
                    idx.push((i, j));
                }
            }
            let count = 1u64 << (1u32 << n);
            for x in 0..count {
                if !sc.mine() {
                    continue;
                }
                let ft = Tt::from_words(n, vec![x]);
                // c0, c1: a deterministic scramble of x so that arbitrary pairs are composed too
                let c0 = Tt::from_words(n, vec![x.wrapping_mul(0x9e37_79b9_7f4a_7c15) >> 7]);
                let c1 = Tt::from_words(n, vec![!x.rotate_left(3) ^ 0x5a5a]);
                if !f(Case { fam, f: ft, c0, c1, idx: idx.clone() }) {
                    return;
                }
            }
        }
    }
}

pub fn def() -> PropDef {
    PropDef {
        id: "C03",
        rule: "cases = (family, f, c0, c1, index pairs) with n in 1..=12 (LutN) / 1..=14 (Lut; about one case in 4000 has 15..=20 variables, two or three index pairs, every second pair among the top three variables), tables from the table generator (dense classes dominate), all (i,j) for n<=5 and regime-balanced drawn pairs (both<=5, j<=5<i, both>=6) above; for each index: flip/flip_inplace, cofactors (both), from_cofactors(cofactors(f)), from_cofactors(c0,c1) for arbitrary c0,c1 and from_cofactors(c0,c0) with one object passed twice; for each pair: swap/swap_inplace in the given argument order and swap_adjacent(_inplace) when j=i+1; every result compared with the definition on every assignment via value(). Non-trivial = f depends on the variable / the swap changes f; distinct by whole case. Exhaustive part: all f, all (i,j), n<=3 (quick) / n<=4 (thorough).",
        assumptions: vec!["value(), from_blocks()/set_bit() as observation/loading channel; stray bits are not inspected here (C02)"],
        subs: vec![Box::new(Sub {
            name: "transforms",
            rule: "see property rule",
            strategy,
            cases: (300_000, 4_000_000),
            exhaustive: Some(enumerate),
            exhaustive_note: "all functions, all (i,j), n<=3 (quick) / n<=4 (thorough), both families",
            run,
        })],
    }
}
