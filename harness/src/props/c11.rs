//! C11 — named constructors build exactly the functions their names denote.

use proptest::prelude::*;
use serde::{Deserialize, Serialize};

use crate::adapter::Fam;
use crate::common::*;
use crate::engine::*;
use crate::gen::*;
use crate::model::Tt;

#[derive(Clone, Debug, Hash, Serialize, Deserialize)]
pub enum Ctor {
    Zero,
    One,
    NthVar(usize),
    Symmetric(usize),
    Equals(usize),
    Threshold(usize),
    Parity,
    Majority,
    Default,
}

#[derive(Clone, Debug, Hash, Serialize, Deserialize)]
pub struct Case {
    pub fam: Fam,
    pub n: usize,
    pub ctor: Ctor,
}

fn pc(m: usize) -> usize {
    m.count_ones() as usize
}

fn run(c: &Case) -> Verdict {
    let f = c.fam.get();
    let n = c.n;
    let fl = c.fam.label();
    let (what, built, want): (String, Result<crate::adapter::T, String>, Tt) = match &c.ctor {
        Ctor::Zero => ("zero".into(), guard(|| f.zero(n)), Tt::from_fn(n, |_| false)),
        Ctor::One => ("one".into(), guard(|| f.one(n)), Tt::from_fn(n, |_| true)),
        Ctor::NthVar(i) => (format!("nth_var({})", i), guard(|| f.nth_var(n, *i)), Tt::from_fn(n, |m| (m >> i) & 1 != 0)),
        Ctor::Symmetric(cv) => (
            format!("symmetric({:#x})", cv),
            guard(|| f.symmetric(n, *cv)),
            Tt::from_fn(n, |m| (cv >> pc(m)) & 1 != 0),
        ),
        Ctor::Equals(k) => (format!("equals({})", k), guard(|| f.equals(n, *k)), Tt::from_fn(n, |m| pc(m) == *k)),
        Ctor::Threshold(k) => (format!("threshold({})", k), guard(|| f.threshold(n, *k)), Tt::from_fn(n, |m| pc(m) >= *k)),
        Ctor::Parity => ("parity".into(), guard(|| f.parity(n)), Tt::from_fn(n, |m| pc(m) % 2 == 1)),
        Ctor::Majority => ("majority".into(), guard(|| f.majority(n)), Tt::from_fn(n, |m| pc(m) >= (n + 1) / 2)),
        Ctor::Default => {
            let nn = if c.fam == Fam::Dyn { 0 } else { n };
            ("default".into(), guard(|| f.default_(n)), Tt::zero(nn))
        }
    };
    let kind = what.split('(').next().unwrap_or("").to_string();
    let x = match built {
        Ok(x) => x,
        Err(p) => return fail(format!("panic:{}", kind), format!("{}(n={})::{} panicked on a valid argument: {}", fl, n, what, p)),
    };
    if let Err(e) = same_fn(x.as_ref(), &want) {
        return fail(format!("value:{}", kind), format!("{}(n={})::{}: {}", fl, n, what, e));
    }
    let mut labels = vec![format!("fam:{}", fl), format!("n:{}", n), format!("ctor:{}", kind), format!("size:{}", n_label(n))];
    match &c.ctor {
        Ctor::Equals(k) | Ctor::Threshold(k) if *k > n => labels.push("k>n".into()),
        Ctor::Equals(k) | Ctor::Threshold(k) if *k >= 64 => labels.push("k>=64".into()),
        _ => {}
    }
    pass(!want.is_const(), labels)
}

fn all_k(n: usize) -> Vec<usize> {
    let mut v: Vec<usize> = (0..=n + 2).collect();
    v.extend([31, 32, 33, 62, 63, 64, 65, 66, 127, 128, 255, 256, usize::MAX - 1, usize::MAX, usize::MAX / 2, usize::MAX / 2 + 1]);
    v
}

fn enumerate(_t: Tier, shard: usize, nshards: usize, f: &mut dyn FnMut(Case) -> bool) {
    let mut sc = ShardCounter::new(shard, nshards);
    for fam in [Fam::Dyn, Fam::Static] {
        // the dynamic type has no size limit: two sizes beyond the stated sample (table > 256 words)
        for n in 0..=(if fam == Fam::Dyn { 16 } else { fam.max_n() }) {
            let mut ctors = vec![Ctor::Zero, Ctor::One, Ctor::Parity, Ctor::Majority, Ctor::Default];
            for i in 0..n {
                ctors.push(Ctor::NthVar(i));
            }
            for k in all_k(n) {
                ctors.push(Ctor::Equals(k));
                ctors.push(Ctor::Threshold(k));
            }
            // count masks: constants, every single bit 0..=65 (mod width), alternating, nibbles
            let mut cms: Vec<usize> = vec![0, !0, 0x5555_5555_5555_5555, 0xaaaa_aaaa_aaaa_aaaa, 0x0f0f_0f0f_0f0f_0f0f, 0x8000_0000_0000_0001];
            for b in 0..=65usize {
                cms.push(1usize << (b % 64));
                cms.push(!(1usize << (b % 64)));
            }
            for cm in cms {
                ctors.push(Ctor::Symmetric(cm));
            }
            for ctor in ctors {
                if sc.mine() && !f(Case { fam, n, ctor }) {
                    return;
                }
            }
        }
    }
}

fn strategy(_t: Tier) -> BoxedStrategy<Case> {
    arb_fam_n(0, 14)
        .prop_flat_map(|(fam, n)| {
            prop_oneof![
                6 => any::<usize>().prop_map(Ctor::Symmetric),
                2 => (0..(1usize << std::cmp::min(n + 1, 20))).prop_map(Ctor::Symmetric),
                1 => any::<usize>().prop_map(Ctor::Equals),
                1 => any::<usize>().prop_map(Ctor::Threshold),
            ]
            .prop_map(move |ctor| Case { fam, n, ctor })
        })
        .boxed()
}

pub fn def() -> PropDef {
    PropDef {
        id: "C11",
        rule: "cases = (family, n, constructor with argument). Enumerated completely in both tiers: for every n in 0..=12 (LutN) / 0..=16 (Lut): zero, one, parity, majority, Default, nth_var(i) for all i<n, equals(k) and threshold(k) for all k in 0..=n+2 and k in {31,32,33,62..66,127,128,255,256,usize::MAX/2,usize::MAX/2+1,usize::MAX-1,usize::MAX}, symmetric(c) for c in {0,!0,alternating,nibbles,ends} and every single bit / single cleared bit 0..=65 (mod 64). Generated: symmetric(c) for arbitrary and small c, equals/threshold with arbitrary k. Oracle: popcount definitions evaluated on every assignment and compared through value(); no panic for any k. Non-trivial = the denoted function is not constant; distinct by (family, n, constructor, argument).",
        assumptions: vec!["value() as observation channel; stray bits in blocks() are C02's statement"],
        subs: vec![Box::new(Sub {
            name: "ctors",
            rule: "see property rule",
            strategy,
            cases: (200_000, 3_000_000),
            exhaustive: Some(enumerate),
            exhaustive_note: "complete enumeration of (family, n, constructor, argument) as listed in the rule; only symmetric(c) has a generated part in addition",
            run,
        })],
    }
}
