//! C18 — MIP two-level optimizers return exact covers of minimum gate cost (feature optim-mip).

use std::collections::HashMap;

use proptest::collection::vec;
use proptest::prelude::*;
use serde::{Deserialize, Serialize};

use volute::sop::optim::{optimize_esop_mip, optimize_sop_mip, optimize_sopes_mip};
use volute::sop::{Esop, Soes, Sop};
use volute::Lut;

use crate::engine::*;
use crate::gen::arb_tt;
use crate::model::Tt;
use crate::sopx::*;

#[derive(Clone, Copy, Debug, Hash, PartialEq, Eq, Serialize, Deserialize)]
pub enum Kind {
    Sop,
    Sopes,
    Esop,
}

#[derive(Clone, Debug, Hash, Serialize, Deserialize)]
pub struct Case {
    pub kind: Kind,
    pub fs: Vec<Tt>,
    pub and_cost: i32,
    pub xor_cost: i32,
    pub or_cost: i32,
}

// ---------------------------------------------------------------------------------------------
// candidate terms in the model: (on-set bitmask over the 2^n assignments, gate count, is_xor_term)

#[derive(Clone, Debug)]
struct Term {
    set: u32,
    gates: i64,
    xor_term: bool,
}

fn all_cubes(n: usize) -> Vec<Term> {
    let mut v = Vec::new();
    for p in 0..(1u32 << n) {
        for ng in 0..(1u32 << n) {
            if p & ng != 0 {
                continue;
            }
            let m = CB::FromMask(p, ng).model();
            let mut set = 0u32;
            for x in 0..(1u32 << n) {
                if m.value(x as u64) {
                    set |= 1 << x;
                }
            }
            let lits = m.num_lits() as i64;
            v.push(Term { set, gates: std::cmp::max(lits, 1) - 1, xor_term: false });
        }
    }
    v
}

fn all_ecubes(n: usize) -> Vec<Term> {
    let mut v = Vec::new();
    for vars in 0..(1u32 << n) {
        for xnor in [false, true] {
            let mut set = 0u32;
            for x in 0..(1u32 << n) {
                if ((x & vars).count_ones() % 2 == 1) ^ xnor {
                    set |= 1 << x;
                }
            }
            let lits = vars.count_ones() as i64;
            v.push(Term { set, gates: std::cmp::max(lits, 1) - 1, xor_term: true });
        }
    }
    v
}

fn bits(t: &Tt) -> u32 {
    t.w[0] as u32
}

/// Exact minimum cost by dynamic programming over the candidate list; every candidate is decided
/// once: for which subset of outputs it is used. State = per-output covered set (SOP/SOPES) or
/// per-output XOR residual (ESOP). The gate cost of a candidate is paid once if any output uses
/// it; each use costs one OR/XOR and one OR/XOR per non-empty output is refunded at the end.
fn exact_optimum(kind: Kind, fs: &[Tt], and_c: i64, xor_c: i64, or_c: i64) -> i64 {
    let n = fs[0].n;
    let k = fs.len();
    let targets: Vec<u32> = fs.iter().map(bits).collect();
    let mut cands: Vec<Term> = all_cubes(n);
    if kind == Kind::Sopes {
        cands.extend(all_ecubes(n));
    }
    let join_cost = if kind == Kind::Esop { xor_c } else { or_c };
    let mut cur: HashMap<Vec<u32>, i64> = HashMap::new();
    cur.insert(vec![0u32; k], 0);
    for c in &cands {
        if c.set == 0 {
            continue;
        }
        let gate_cost = c.gates * if c.xor_term { xor_c } else { and_c };
        // outputs for which the candidate may be used
        let usable: Vec<usize> = (0..k)
            .filter(|j| match kind {
                Kind::Esop => true,
                _ => c.set & !targets[*j] == 0,
            })
            .collect();
        if usable.is_empty() {
            continue;
        }
        let mut next = cur.clone();
        for (state, cost) in &cur {
            for sel in 1u32..(1u32 << usable.len()) {
                let mut s2 = state.clone();
                let mut uses = 0i64;
                for (b, j) in usable.iter().enumerate() {
                    if (sel >> b) & 1 != 0 {
                        uses += 1;
                        match kind {
                            Kind::Esop => s2[*j] ^= c.set,
                            _ => s2[*j] |= c.set,
                        }
                    }
                }
                let c2 = cost + gate_cost + uses * join_cost;
                let e = next.entry(s2).or_insert(i64::MAX);
                if c2 < *e {
                    *e = c2;
                }
            }
        }
        cur = next;
    }
    let refund: i64 = targets.iter().filter(|t| **t != 0).count() as i64 * join_cost;
    match cur.get(&targets) {
        Some(c) => c - refund,
        None => i64::MAX,
    }
}

// ---------------------------------------------------------------------------------------------
// cost of what the library returned, under the documented model

fn cube_key(c: &volute::sop::Cube) -> (Vec<usize>, Vec<usize>) {
    (c.pos_vars().collect(), c.neg_vars().collect())
}

struct Returned {
    cost: i64,
    terms_per_output: Vec<usize>,
}

fn judge_sop_like(fs: &[Tt], forms: &[(Sop, Soes)], and_c: i64, xor_c: i64, or_c: i64, what: &str) -> Result<Returned, Fail> {
    if forms.len() != fs.len() {
        return Err(Fail { sig: "arity".into(), msg: format!("{} returned {} forms for {} functions", what, forms.len(), fs.len()) });
    }
    let n = fs[0].n;
    let mut cubes = std::collections::BTreeSet::new();
    let mut ecubes = std::collections::BTreeSet::new();
    let mut cost = 0i64;
    let mut tpo = Vec::new();
    for (j, ((sop, soes), f)) in forms.iter().zip(fs.iter()).enumerate() {
        let ms: Vec<CubeM> = sop.cubes().iter().map(CubeM::of).collect();
        let es: Vec<EcubeM> = soes.cubes().iter().map(EcubeM::of).collect();
        let got = tabulate(n, |m| ms.iter().any(|c| c.value(m)) || es.iter().any(|e| e.value(m)));
        if got != *f {
            return Err(Fail { sig: "wrong-function".into(), msg: format!("{}: form #{} denotes {} instead of {}", what, j, got.short(), f.short()) });
        }
        let viafn = lut_model(&(Lut::from(sop) | Lut::from(soes)));
        if viafn != *f {
            return Err(Fail { sig: "wrong-function".into(), msg: format!("{}: Lut::from(form #{}) = {} instead of {}", what, j, viafn.short(), f.short()) });
        }
        for c in &ms {
            if !(0..f.size()).all(|m| !c.value(m as u64) || f.get(m)) {
                return Err(Fail { sig: "not-implicant".into(), msg: format!("{}: cube {} of form #{} is not an implicant of {}", what, c.show(), j, f.short()) });
            }
        }
        for e in &es {
            if !(0..f.size()).all(|m| !e.value(m as u64) || f.get(m)) {
                return Err(Fail { sig: "not-implicant".into(), msg: format!("{}: XOR term {} of form #{} is not an implicant of {}", what, e.show(), j, f.short()) });
            }
        }
        // distinct terms inside one output (a repeated term would be paid twice by the OR count)
        let dc: std::collections::BTreeSet<_> = sop.cubes().iter().map(cube_key).collect();
        let de: std::collections::BTreeSet<_> = es.iter().cloned().collect();
        let terms = dc.len() + de.len();
        tpo.push(terms);
        cost += or_c * (std::cmp::max(terms, 1) as i64 - 1);
        for c in sop.cubes() {
            if cubes.insert(cube_key(c)) {
                cost += and_c * c.num_gates() as i64;
            }
        }
        for e in es {
            let g = std::cmp::max(e.vars.len(), 1) as i64 - 1;
            if ecubes.insert(e) {
                cost += xor_c * g;
            }
        }
    }
    Ok(Returned { cost, terms_per_output: tpo })
}

fn judge_esop(fs: &[Tt], forms: &[Esop], and_c: i64, xor_c: i64, what: &str) -> Result<Returned, Fail> {
    if forms.len() != fs.len() {
        return Err(Fail { sig: "arity".into(), msg: format!("{} returned {} forms for {} functions", what, forms.len(), fs.len()) });
    }
    let n = fs[0].n;
    let mut cubes = std::collections::BTreeSet::new();
    let mut cost = 0i64;
    let mut tpo = Vec::new();
    for (j, (e, f)) in forms.iter().zip(fs.iter()).enumerate() {
        let ms: Vec<CubeM> = e.cubes().iter().map(CubeM::of).collect();
        let got = tabulate(n, |m| ms.iter().fold(false, |a, c| a ^ c.value(m)));
        if got != *f {
            return Err(Fail { sig: "wrong-function".into(), msg: format!("{}: form #{} denotes {} instead of {}", what, j, got.short(), f.short()) });
        }
        let viafn = lut_model(&Lut::from(e));
        if viafn != *f {
            return Err(Fail { sig: "wrong-function".into(), msg: format!("{}: Lut::from(form #{}) = {} instead of {}", what, j, viafn.short(), f.short()) });
        }
        let terms = e.cubes().len();
        tpo.push(terms);
        cost += xor_c * (std::cmp::max(terms, 1) as i64 - 1);
        for c in e.cubes() {
            if cubes.insert(cube_key(c)) {
                cost += and_c * c.num_gates() as i64;
            }
        }
    }
    Ok(Returned { cost, terms_per_output: tpo })
}

fn run(c: &Case) -> Verdict {
    let luts: Vec<Lut> = c.fs.iter().map(to_lut).collect();
    let (a, x, o) = (c.and_cost, c.xor_cost, c.or_cost);
    let show = c.fs.iter().map(|f| f.short()).collect::<Vec<_>>().join(", ");
    let (what, ret) = match c.kind {
        Kind::Sop => {
            let what = format!("optimize_sop_mip([{}], and={}, or={})", show, a, o);
            let r = match guard(|| optimize_sop_mip(&luts, a, o)) {
                Ok(r) => r,
                Err(p) => return fail("panic:sop", format!("{} panicked: {}", what, p)),
            };
            let forms: Vec<(Sop, Soes)> = r.into_iter().map(|s| { let n = s.num_vars(); (s, Soes::zero(n)) }).collect();
            let j = judge_sop_like(&c.fs, &forms, a as i64, x as i64, o as i64, &what);
            (what, j)
        }
        Kind::Sopes => {
            let what = format!("optimize_sopes_mip([{}], and={}, xor={}, or={})", show, a, x, o);
            let r = match guard(|| optimize_sopes_mip(&luts, a, x, o)) {
                Ok(r) => r,
                Err(p) => return fail("panic:sopes", format!("{} panicked: {}", what, p)),
            };
            let j = judge_sop_like(&c.fs, &r, a as i64, x as i64, o as i64, &what);
            (what, j)
        }
        Kind::Esop => {
            let what = format!("optimize_esop_mip([{}], and={}, xor={})", show, a, x);
            let r = match guard(|| optimize_esop_mip(&luts, a, x)) {
                Ok(r) => r,
                Err(p) => return fail("panic:esop", format!("{} panicked: {}", what, p)),
            };
            let j = judge_esop(&c.fs, &r, a as i64, x as i64, &what);
            (what, j)
        }
    };
    let ret = match ret {
        Ok(r) => r,
        Err(f) => return Err(f),
    };
    let n = c.fs[0].n;
    let k = c.fs.len();
    // exact optimum where the DP is affordable, otherwise a sound upper bound
    let exact_ok = match (c.kind, n, k) {
        (_, 0..=3, 1) => true,
        (Kind::Esop, 4, 1) => true,
        (_, 4, 1) => true,
        (_, 0..=2, 2..=3) => true,
        (Kind::Esop, 3, 2) => true,
        (_, 3, 2) => true,
        _ => false,
    };
    let kind_name = format!("{:?}", c.kind).to_lowercase();
    let mut labels = vec![format!("kind:{}", kind_name), format!("n:{}", n), format!("outputs:{}", k)];
    let singles: i64 = c.fs.iter().map(|f| exact_optimum(c.kind, std::slice::from_ref(f), a as i64, x as i64, o as i64)).sum();
    let mut nontrivial = ret.terms_per_output.iter().any(|t| *t >= 2);
    if exact_ok {
        let opt = exact_optimum(c.kind, &c.fs, a as i64, x as i64, o as i64);
        if ret.cost > opt {
            return fail(format!("suboptimal:{}", kind_name), format!("{}: the returned forms cost {} under the documented model but a two-level form of cost {} exists", what, ret.cost, opt));
        }
        if ret.cost < opt {
            return fail("harness:optimum", format!("harness bug: {} returned cost {} below the 'exact' optimum {}", what, ret.cost, opt));
        }
        if opt < singles {
            labels.push("sharing-lowers-the-optimum".into());
            nontrivial = true;
        }
        labels.push("exact-optimum".into());
    } else {
        if ret.cost > singles {
            return fail(format!("suboptimal-vs-bound:{}", kind_name), format!("{}: the returned forms cost {} but optimising every output alone already achieves {}", what, ret.cost, singles));
        }
        labels.push("upper-bound-only".into());
    }
    pass(nontrivial, labels)
}

// ---------------------------------------------------------------------------------------------
// planted covers: outputs built as ORs of cubes from a common pool. The cost of that very cover
// (shared cubes paid once) is an upper bound of the optimum, for sizes the exact DP cannot reach.

#[derive(Clone, Debug, Hash, Serialize, Deserialize)]
pub struct PlantedCase {
    pub kind: Kind,
    pub n: usize,
    /// pool of cubes as (positive mask, negative mask), disjoint
    pub pool: Vec<(u32, u32)>,
    /// for each output, the indices into the pool (non-empty)
    pub uses: Vec<Vec<usize>>,
    pub and_cost: i32,
    pub xor_cost: i32,
    pub or_cost: i32,
}

/// the textbook multi-output situation: one small cube s (4..n literals) shared by 3..4 outputs, each
/// output also containing one or two single-literal cubes that negate a literal of s — so that in
/// every single output s could be expanded to a (different) prime, and only the un-expanded s is shared
fn strategy_planted_shared(_t: Tier) -> BoxedStrategy<PlantedCase> {
    (prop_oneof![Just(Kind::Sop), Just(Kind::Sopes)], 5usize..=6, 3usize..=4, any::<u32>(), any::<u32>(), arb_costs())
        .prop_flat_map(|(kind, n, nout, pol, drop, (a, x, o))| {
            let vm = (1u32 << n) - 1;
            // support of s: all variables, or all but one
            let sup = if drop % 3 == 0 { vm & !(1 << (drop as usize / 3 % n)) } else { vm };
            let s_cube = (pol & sup, !pol & sup);
            let lits: Vec<usize> = (0..n).filter(|v| (sup >> v) & 1 != 0).collect();
            // the negated literals of all outputs come from a small subset T of s's literals (3 or 4 of
            // them), mostly two per output: then the primes of the single outputs overlap pairwise and
            // s is the intersection of three of them but of no two
            let tsize = 3 + (drop as usize / 7) % 2;
            let start = (drop as usize / 16) % lits.len();
            let tset: Vec<usize> = (0..tsize).map(|k| (start + k) % lits.len()).collect();
            proptest::collection::vec(prop_oneof![1 => proptest::collection::vec(0usize..tsize, 1..=1), 4 => proptest::collection::vec(0usize..tsize, 2..=2)], nout).prop_map(move |picks| {
                let picks: Vec<Vec<usize>> = picks.into_iter().map(|pk| pk.into_iter().map(|k| tset[k]).collect()).collect();
                let mut pool = vec![s_cube];
                let mut uses = Vec::new();
                for pk in picks {
                    let mut u = vec![0usize];
                    for li in pk {
                        let v = lits[li];
                        // the negation of s's literal on v, as a single-literal cube
                        let q = if (s_cube.0 >> v) & 1 != 0 { (0u32, 1u32 << v) } else { (1u32 << v, 0u32) };
                        let idx = match pool.iter().position(|c| *c == q) {
                            Some(i) => i,
                            None => {
                                pool.push(q);
                                pool.len() - 1
                            }
                        };
                        u.push(idx);
                    }
                    uses.push(u);
                }
                PlantedCase { kind, n, pool, uses, and_cost: a, xor_cost: x, or_cost: o }
            })
        })
        .boxed()
}

fn strategy_planted(t: Tier) -> BoxedStrategy<PlantedCase> {
    prop_oneof![1 => strategy_planted_random(t), 1 => strategy_planted_shared(t)].boxed()
}

fn strategy_planted_random(_t: Tier) -> BoxedStrategy<PlantedCase> {
    (prop_oneof![Just(Kind::Sop), Just(Kind::Sopes)], prop_oneof![3 => Just(4usize), 5 => Just(5usize), 1 => Just(6usize)], 2usize..=4, prop_oneof![1 => Just(2usize), 3 => Just(3usize), 2 => Just(4usize)], arb_costs())
        .prop_flat_map(|(kind, n, npool, nout, (a, x, o))| {
            let vm = (1u32 << n) - 1;
            // a cube = (support, polarity): 1..n literals (an AND of two draws thins half of the supports)
            let cube = (any::<u32>(), any::<u32>(), any::<u32>(), any::<bool>()).prop_map(move |(s1, s2, pol, thin)| {
                let mut sup = (if thin { s1 & s2 } else { s1 }) & vm;
                if sup == 0 {
                    sup = 1 << (s2 as usize % n);
                }
                (pol & sup, !pol & sup)
            });
            (proptest::collection::vec(cube, npool), proptest::collection::vec(proptest::collection::vec(0usize..8, 1..=3), nout))
                .prop_map(move |(pool, uses)| PlantedCase { kind, n, pool, uses, and_cost: a, xor_cost: x, or_cost: o })
        })
        .boxed()
}

fn run_planted(c: &PlantedCase) -> Verdict {
    let n = c.n;
    let (a, x, o) = (c.and_cost as i64, c.xor_cost as i64, c.or_cost as i64);
    let cube_val = |(p, ng): (u32, u32), m: usize| (m as u32 & p) == p && (m as u32 & ng) == 0;
    let gates = |(p, ng): (u32, u32)| std::cmp::max((p.count_ones() + ng.count_ones()) as i64, 1) - 1;
    // outputs and the cost of the planted cover (distinct cubes per output, shared cubes paid once)
    let mut fs: Vec<Tt> = Vec::new();
    let mut used = std::collections::BTreeSet::new();
    let mut planted = 0i64;
    for u in &c.uses {
        let idx: std::collections::BTreeSet<usize> = u.iter().map(|i| i % c.pool.len()).collect();
        let cubes: std::collections::BTreeSet<(u32, u32)> = idx.iter().map(|i| c.pool[*i]).collect();
        fs.push(Tt::from_fn(n, |m| cubes.iter().any(|q| cube_val(*q, m))));
        planted += o * (cubes.len() as i64 - 1);
        for q in cubes {
            if used.insert(q) {
                planted += a * gates(q);
            }
        }
    }
    let luts: Vec<Lut> = fs.iter().map(to_lut).collect();
    let show = fs.iter().map(|f| f.short()).collect::<Vec<_>>().join(", ");
    let (what, ret) = match c.kind {
        Kind::Sop => {
            let what = format!("optimize_sop_mip([{}], and={}, or={})", show, a, o);
            let r = match guard(|| optimize_sop_mip(&luts, c.and_cost, c.or_cost)) {
                Ok(r) => r,
                Err(p) => return fail("panic:sop", format!("{} panicked: {}", what, p)),
            };
            let forms: Vec<(Sop, Soes)> = r.into_iter().map(|s| { let nn = s.num_vars(); (s, Soes::zero(nn)) }).collect();
            let j = judge_sop_like(&fs, &forms, a, x, o, &what);
            (what, j)
        }
        _ => {
            let what = format!("optimize_sopes_mip([{}], and={}, xor={}, or={})", show, a, x, o);
            let r = match guard(|| optimize_sopes_mip(&luts, c.and_cost, c.xor_cost, c.or_cost)) {
                Ok(r) => r,
                Err(p) => return fail("panic:sopes", format!("{} panicked: {}", what, p)),
            };
            let j = judge_sop_like(&fs, &r, a, x, o, &what);
            (what, j)
        }
    };
    let ret = ret?;
    if ret.cost > planted {
        let cover: Vec<String> = used.iter().map(|(p, ng)| format!("{:0w$b}/{:0w$b}", p, ng, w = n)).collect();
        return fail(
            format!("planted:suboptimal:{:?}", c.kind).to_lowercase(),
            format!("{}: the returned forms cost {} but the outputs were built as ORs of the cubes (pos/neg masks) [{}], a cover of cost {}", what, ret.cost, cover.join(", "), planted),
        );
    }
    let shared3 = c.pool.iter().filter(|q| fs.len() >= 3 && c.uses.iter().filter(|u| u.iter().any(|i| c.pool[i % c.pool.len()] == **q)).count() >= 3).count();
    pass(ret.terms_per_output.iter().any(|t| *t >= 2), vec![format!("kind:{:?}", c.kind), format!("n:{}", n), format!("outputs:{}", fs.len()), format!("cubes-shared-by-3:{}", std::cmp::min(shared3, 2))])
}

// ---------------------------------------------------------------------------------------------
// metamorphic: variables a function does not depend on do not change the optimum

#[derive(Clone, Debug, Hash, Serialize, Deserialize)]
pub struct EmbedCase {
    pub kind: Kind,
    /// small functions (k <= 3 variables) whose exact optimum the DP computes
    pub small: Vec<Tt>,
    /// total number of variables of the embedded problem and, for each small variable, its position
    pub n: usize,
    pub positions: Vec<usize>,
    pub and_cost: i32,
    pub xor_cost: i32,
    pub or_cost: i32,
}

fn strategy_embed(_t: Tier) -> BoxedStrategy<EmbedCase> {
    (prop_oneof![1 => Just(Kind::Sop), 2 => Just(Kind::Sopes), 1 => Just(Kind::Esop)], prop_oneof![1 => Just(1usize), 3 => 2usize..=3], 1usize..=2, arb_costs())
        .prop_flat_map(|(kind, k, outs, (a, x, o))| {
            // the ESOP model grows as 3^n with parity constraints: embed into at most 5 variables
            let max_n = if kind == Kind::Esop { 5usize } else { 8usize };
            let sizes = prop_oneof![2 => (k + 1)..=max_n, 1 => Just(max_n)];
            // XOR-rich functions (what distinguishes SOPES/ESOP from SOP): affine functions of a random
            // subset of the variables, possibly ANDed / ORed with one more literal
            let affine = (1u32..(1u32 << k), any::<bool>(), 0u8..3, 0..k, any::<bool>()).prop_map(move |(vars, neg, mode, lv, lp)| {
                Tt::from_fn(k, |m| {
                    let x = ((m as u32 & vars).count_ones() & 1 != 0) ^ neg;
                    let l = ((m >> lv) & 1 != 0) == lp;
                    match mode {
                        0 => x,
                        1 => x & l,
                        _ => x | l,
                    }
                })
            });
            let small_fn = prop_oneof![2 => arb_tt(k), 1 => affine];
            (vec(small_fn, outs), sizes, any::<u64>(), any::<bool>()).prop_map(move |(small, n, seed, top)| {
                // k distinct positions among n: the k highest ones (variables >= 6 for n = 8) half
                // of the time, otherwise chosen by a fixed shuffle of the seed
                let mut pool: Vec<usize> = if top { ((n - k)..n).collect() } else { (0..n).collect() };
                let mut s = seed | 1;
                let mut positions = Vec::new();
                for _ in 0..k {
                    s ^= s << 13;
                    s ^= s >> 7;
                    s ^= s << 17;
                    let i = (s % pool.len() as u64) as usize;
                    positions.push(pool.remove(i));
                }
                EmbedCase { kind, small: small.clone(), n, positions, and_cost: a, xor_cost: x, or_cost: o }
            })
        })
        .boxed()
}

fn run_embed(c: &EmbedCase) -> Verdict {
    let k = c.small[0].n;
    let big: Vec<Tt> = c
        .small
        .iter()
        .map(|f| {
            Tt::from_fn(c.n, |m| {
                let mut x = 0usize;
                for (i, p) in c.positions.iter().enumerate() {
                    x |= ((m >> p) & 1) << i;
                }
                f.get(x)
            })
        })
        .collect();
    let luts: Vec<Lut> = big.iter().map(to_lut).collect();
    let (a, x, o) = (c.and_cost, c.xor_cost, c.or_cost);
    let show = c.small.iter().map(|f| f.short()).collect::<Vec<_>>().join(", ");
    let what = format!("{:?} optimizer on [{}] embedded at positions {:?} of {} variables (costs and={} xor={} or={})", c.kind, show, c.positions, c.n, a, x, o);
    let ret = match c.kind {
        Kind::Sop => match guard(|| optimize_sop_mip(&luts, a, o)) {
            Ok(r) => {
                let forms: Vec<(Sop, Soes)> = r.into_iter().map(|s| { let n = s.num_vars(); (s, Soes::zero(n)) }).collect();
                judge_sop_like(&big, &forms, a as i64, x as i64, o as i64, &what)
            }
            Err(p) => return fail("panic:sop", format!("{} panicked: {}", what, p)),
        },
        Kind::Sopes => match guard(|| optimize_sopes_mip(&luts, a, x, o)) {
            Ok(r) => judge_sop_like(&big, &r, a as i64, x as i64, o as i64, &what),
            Err(p) => return fail("panic:sopes", format!("{} panicked: {}", what, p)),
        },
        Kind::Esop => match guard(|| optimize_esop_mip(&luts, a, x)) {
            Ok(r) => judge_esop(&big, &r, a as i64, x as i64, &what),
            Err(p) => return fail("panic:esop", format!("{} panicked: {}", what, p)),
        },
    };
    let ret = match ret {
        Ok(r) => r,
        Err(f) => return Err(f),
    };
    // a literal of a variable f does not depend on never helps: the optimum over n variables is
    // the optimum of the small functions over their own k variables
    let opt = exact_optimum(c.kind, &c.small, a as i64, x as i64, o as i64);
    let kind_name = format!("{:?}", c.kind).to_lowercase();
    if ret.cost > opt {
        return fail(format!("embed:suboptimal:{}", kind_name), format!("{}: the returned forms cost {} but the functions only depend on {} variables, over which a form of cost {} exists", what, ret.cost, k, opt));
    }
    if ret.cost < opt {
        return fail("harness:optimum", format!("harness bug: {} returned cost {} below the optimum {}", what, ret.cost, opt));
    }
    let hi = c.positions.iter().filter(|p| **p >= 6).count();
    pass(ret.terms_per_output.iter().any(|t| *t >= 2) || hi >= 1, vec![format!("kind:{}", kind_name), format!("n:{}", c.n), format!("k:{}", k), format!("positions>=6:{}", hi)])
}

fn arb_costs() -> BoxedStrategy<(i32, i32, i32)> {
    // mostly the triples of the quantifier's sample {1,2,3}^3; the statement holds for any given
    // costs >= 1, so one component in four is drawn from 4..=12
    fn one() -> BoxedStrategy<i32> {
        prop_oneof![12 => 1i32..=3, 3 => 4i32..=7, 1 => 8i32..=12].boxed()
    }
    (one(), one(), one()).boxed()
}

fn strategy(_t: Tier) -> BoxedStrategy<Case> {
    (prop_oneof![Just(Kind::Sop), Just(Kind::Sopes), Just(Kind::Esop)], prop_oneof![1 => 0usize..=2, 3 => Just(3usize), 2 => Just(4usize)], 1usize..=3, arb_costs())
        .prop_flat_map(|(kind, n, k, (a, x, o))| {
            // ESOP is solved up to n = 3 only (its model is much harder for the solver)
            let n = if kind == Kind::Esop { std::cmp::min(n, 3) } else { n };
            (vec(arb_tt(n), k), vec(0u8..4, k)).prop_map(move |(mut fs, rel)| {
                // a member is sometimes a copy or the complement of an earlier member
                for i in 1..fs.len() {
                    match rel[i] {
                        0 => fs[i] = fs[i - 1].clone(),
                        1 => fs[i] = fs[0].not(),
                        _ => {}
                    }
                }
                Case { kind, fs, and_cost: a, xor_cost: x, or_cost: o }
            })
        })
        .boxed()
}

fn enumerate(t: Tier, shard: usize, nshards: usize, f: &mut dyn FnMut(Case) -> bool) {
    let mut sc = ShardCounter::new(shard, nshards);
    let triples = [(1, 1, 1), (1, 2, 1), (2, 1, 3), (3, 3, 1), (1, 3, 2)];
    for kind in [Kind::Sop, Kind::Sopes, Kind::Esop] {
        // all single functions
        for n in 0..=t.pick(2usize, 3) {
            let count = 1u64 << (1u32 << n);
            for x in 0..count {
                // quick: one cost triple per function (rotating); thorough: two
                for r in 0..t.pick(1usize, 2) {
                    let (a, xc, o) = triples[((x as usize) + r * 2 + n) % triples.len()];
                    if sc.mine() && !f(Case { kind, fs: vec![Tt::from_words(n, vec![x])], and_cost: a, xor_cost: xc, or_cost: o }) {
                        return;
                    }
                }
            }
        }
        // every single function of n = 3 under 9 cost triples (quick) / all 27 (thorough)
        {
            let nine = [(1, 1, 1), (1, 3, 1), (1, 3, 2), (3, 1, 1), (2, 1, 3), (1, 2, 1), (3, 3, 1), (2, 3, 2), (1, 1, 3)];
            let mut all = Vec::new();
            for a in 1..=3 {
                for xc in 1..=3 {
                    for o in 1..=3 {
                        all.push((a, xc, o));
                    }
                }
            }
            let mut list: Vec<(i32, i32, i32)> = if t == Tier::Thorough { all } else { nine.to_vec() };
            // triples outside {1,2,3}^3 (a dear XOR, a dear AND, a dear OR)
            list.extend([(1, 4, 1), (1, 7, 2), (5, 1, 1), (1, 1, 6)]);
            if t == Tier::Thorough {
                list.extend([(1, 5, 2), (2, 9, 1), (4, 4, 1), (7, 2, 3), (1, 12, 1), (3, 1, 9)]);
            }
            for x in 0..256u64 {
                for (a, xc, o) in &list {
                    // SOP does not use the xor cost: skip triples that only differ in it
                    if kind == Kind::Sop && *xc != 1 {
                        continue;
                    }
                    if kind == Kind::Esop && *o != 1 {
                        continue;
                    }
                    if sc.mine() && !f(Case { kind, fs: vec![Tt::from_words(3, vec![x])], and_cost: *a, xor_cost: *xc, or_cost: *o }) {
                        return;
                    }
                }
            }
        }
        // the same function twice, n = 3 (every 4th function in quick, all in thorough)
        {
            let stride = t.pick(4u64, 1);
            let mut x = 0u64;
            while x < 256 {
                let (a, xc, o) = triples[(x as usize / 3) % triples.len()];
                let ft = Tt::from_words(3, vec![x]);
                if sc.mine() && !f(Case { kind, fs: vec![ft.clone(), ft], and_cost: a, xor_cost: xc, or_cost: o }) {
                    return;
                }
                x += stride;
            }
        }
        // all ordered pairs
        for n in 0..=t.pick(1usize, 2) {
            let count = 1u64 << (1u32 << n);
            for x in 0..count {
                for y in 0..count {
                    let (a, xc, o) = triples[((x + 3 * y) as usize) % triples.len()];
                    if sc.mine() && !f(Case { kind, fs: vec![Tt::from_words(n, vec![x]), Tt::from_words(n, vec![y])], and_cost: a, xor_cost: xc, or_cost: o }) {
                        return;
                    }
                }
            }
        }
    }
}

pub fn def() -> PropDef {
    PropDef {
        id: "C18",
        rule: "cases = (optimizer in {optimize_sop_mip, optimize_sopes_mip, optimize_esop_mip}, list of 1..3 functions of one n, gate costs (and, xor, or) each from 1..=3 mostly and from 4..=12 one time in four). Oracle: (1) validity — one form per input; the cubes()/terms read back through pos_vars()/neg_vars()/vars() and Lut::from(form) denote exactly f_j; every Sop cube and Soes term is an implicant; (2) the cost of the returned forms recomputed by the harness under the documented model: gates of the DISTINCT cubes (and XOR terms) over all outputs x and/xor cost + per output (terms-1)+ x or (ESOP: xor) cost; (3) the exact optimum from the harness's own dynamic programme over all 3^n cubes (plus all 2^(n+1) XOR terms for SOPES): per-output covered set (SOP/SOPES) or XOR residual (ESOP) as state, each candidate decided once for a subset of outputs, its gates paid once — affordable for one output up to n=4 and 2..3 outputs up to n=2 (2 outputs: n=3); beyond that only `cost <= sum of the single-output optima` is asserted (sound, incomplete; labelled upper-bound-only). Violation = invalid form, or cost above the optimum / bound. Exhaustive: all single functions n<=2 with rotating cost triples, every single function of n=3 under 9 cost triples of {1,2,3}^3 (quick) / all 27 (thorough) plus 4 (quick) / 10 (thorough) triples with one dear gate (cost 4..12), all ordered pairs n<=1 / n<=2, the pair (f, f) for every 4th (quick) / every (thorough) function of 3 variables, cost triples rotating over 5 fixed ones; generated lists of 1..3 functions, n<=4 (ESOP n<=3), all 27 cost triples. Non-trivial = some output needs >= 2 terms, or sharing between outputs lowers the optimum.",
        assumptions: vec![
            "empty function lists and costs < 1 are outside the quantifier (the optimizers assert costs >= 1)",
            "HiGHS is trusted to terminate; a solver failure shows as a panic of the optimizer and is reported as such",
            "optimality for 3 outputs at n>=3 and 2 outputs at n=4 is only bounded, not decided",
        ],
        subs: vec![Box::new(Sub {
            name: "embed",
            rule: "metamorphic: 1..2 generated functions of k<=3 variables are embedded at generated positions into n<=8 variables (ESOP n<=5); the optimizers must return valid forms whose cost equals the exact optimum of the small functions (dummy variables never lower or raise the optimum). Reaches sizes (n = 5..8, variables >= 6, multi-word tables) where the exact DP itself is out of reach.",
            strategy: strategy_embed,
            cases: (500, 8_000),
            exhaustive: None,
            exhaustive_note: "",
            run: run_embed,
        }), Box::new(Sub {
            name: "optimum",
            rule: "see property rule",
            strategy,
            cases: (150, 8_000),
            exhaustive: Some(enumerate),
            exhaustive_note: "all single functions n<=2 (quick) / n<=3 (thorough); all ordered pairs n<=1 / n<=2; 3 optimizers",
            run,
        }), Box::new(Sub {
            name: "planted",
            rule: "planted covers (SOP and SOPES): 2..4 outputs over n in 4..=6 variables are built as ORs of 1..3 cubes drawn from a common pool of 2..4 cubes (so that cubes are shared, also by three outputs); the returned forms must be valid and must not cost more than the planted cover itself (shared cubes paid once) — a sound upper bound of the optimum at sizes the exact DP cannot reach. Every other case is the textbook sharing situation: a cube of 4..n literals shared by 3..4 outputs of 5..6 variables, each output also containing single-literal cubes that negate one of its literals (in each output alone the shared cube could be expanded to a different prime). Non-trivial = some output needs >= 2 terms.",
            strategy: strategy_planted,
            cases: (800, 20_000),
            exhaustive: None,
            exhaustive_note: "",
            run: run_planted,
        })],
    }
}
