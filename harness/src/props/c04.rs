//! C04 — P / N / NPN canonization returns the orbit minimum, for every function and size.

use proptest::prelude::*;
use serde::{Deserialize, Serialize};

use crate::adapter::{Fam, Tab, T};
use crate::common::*;
use crate::engine::*;
use crate::gen::*;
use crate::model::Tt;
use crate::orbit::*;
use crate::{ensure, lib};

#[derive(Clone, Debug, Hash, Serialize, Deserialize)]
pub struct Case {
    pub fam: Fam,
    pub group: Group,
    pub f: Tt,
}

pub fn arb_group() -> BoxedStrategy<Group> {
    prop_oneof![Just(Group::P), Just(Group::N), Just(Group::Npn)].boxed()
}

pub fn canon(x: &dyn Tab, g: Group) -> (T, Vec<u8>, u32) {
    match g {
        Group::P => {
            let (t, p) = x.p_canon();
            (t, p, 0)
        }
        Group::N => {
            let (t, m) = x.n_canon();
            let n = x.n();
            (t, (0..n as u8).collect(), m)
        }
        Group::Npn => x.npn_canon(),
    }
}

/// few-ones / symmetric / plain classes for canonization inputs
pub fn arb_canon_tt(n: usize) -> BoxedStrategy<Tt> {
    let size = 1usize << n;
    let few = proptest::collection::vec(0..size, 1..=3).prop_map(move |b| {
        let mut t = Tt::zero(n);
        for m in b {
            t.set(m, true);
        }
        t
    });
    let sym = any::<u32>().prop_map(move |c| Tt::from_fn(n, |m| (c >> m.count_ones()) & 1 != 0));
    if n < 3 {
        return prop_oneof![6 => arb_tt(n), 1 => few, 2 => sym].boxed();
    }
    // partial symmetry: symmetric in (x_i, x_j) on the half x_k = 0 only (a multiplexer whose one
    // input is symmetric in two variables)
    let partsym = (0..n, 0..n - 1, 0..n - 2, arb_tt(n), arb_tt(n)).prop_map(move |(i, j0, k0, g, h)| {
        let mut rest: Vec<usize> = (0..n).filter(|v| *v != i).collect();
        let j = rest.remove(j0);
        let k = rest[k0];
        Tt::from_fn(n, |m| {
            if (m >> k) & 1 == 0 {
                // read g with (x_i, x_j) sorted: the value only depends on how many of them are set
                let (a, b) = ((m >> i) & 1, (m >> j) & 1);
                let (lo, hi) = (a & b, a | b);
                let m2 = (m & !(1 << i) & !(1 << j)) | (lo << i) | (hi << j);
                g.get(m2)
            } else {
                h.get(m)
            }
        })
    });
    // weighted votes  sum w_v x_v >= q  (equal weights give symmetric pairs, nearly equal ones partial symmetries)
    let vote = (proptest::collection::vec(1usize..=9, n), any::<u16>()).prop_map(move |(w, q)| {
        let total: usize = w.iter().sum();
        let q = 1 + (q as usize) % total;
        Tt::from_fn(n, |m| (0..n).filter(|v| (m >> v) & 1 != 0).map(|v| w[v]).sum::<usize>() >= q)
    });
    // multiplexer (on the top one or two variables) of self-dual functions of the other variables:
    // every cofactor satisfies g(!x) = !g(x) although f does not
    let sdmux = (1usize..=2, arb_tt(n)).prop_map(move |(sel, t)| {
        let k = n - sel;
        let low = (1usize << k) - 1;
        Tt::from_fn(n, |m| {
            let (hi, lo) = (m >> k, m & low);
            let base = hi << k;
            if (lo >> (k - 1)) & 1 == 0 {
                t.get(base | lo)
            } else {
                !t.get(base | (!lo & low))
            }
        })
    });
    prop_oneof![6 => arb_tt(n), 1 => few, 2 => sym, 2 => partsym, 1 => vote, 1 => sdmux].boxed()
}

/// a <= b in the library's own ordering (C04 is stated relative to it; C08 says it is numeric)
fn lib_le(fam: Fam, a: &Tt, b: &Tt) -> Option<bool> {
    let (x, y) = (load(fam, a).ok()?, load(fam, b).ok()?);
    guard(|| x.cmp_(y.as_ref()) != std::cmp::Ordering::Greater).ok()
}

/// The representative differs from the numeric orbit minimum `min` (an orbit member). If the
/// library's own cmp does not rank `rep` above `min`, the library's ordering deviates from numeric
/// order — C08's statement — and C04, which is stated relative to the library's own ordering,
/// cannot be judged by the numeric oracle; if it does rank it above, `rep` is not the minimum in
/// the library's own ordering either: a genuine C04 violation.
fn ordering_is_to_blame(fam: Fam, rep: &Tt, min: &Tt) -> bool {
    lib_le(fam, rep, min) == Some(true)
}

fn strategy_small(_t: Tier) -> BoxedStrategy<Case> {
    (arb_fam(), arb_group(), prop_oneof![1 => 0usize..=4, 4 => 5usize..=6])
        .prop_flat_map(|(fam, group, n)| arb_canon_tt(n).prop_map(move |f| Case { fam, group, f }))
        .boxed()
}

fn strategy_large(_t: Tier) -> BoxedStrategy<Case> {
    (arb_fam(), arb_group(), prop_oneof![5 => Just(7usize), 1 => Just(8usize)])
        .prop_flat_map(|(fam, group, n)| arb_canon_tt(n).prop_map(move |f| Case { fam, group, f }))
        .boxed()
}

pub fn run_orbit(c: &Case) -> Verdict {
    let x = match load(c.fam, &c.f) {
        Ok(x) => x,
        Err(_) => return pass(false, vec!["skipped:unloadable".into()]),
    };
    let n = c.f.n;
    let g = c.group;
    let what = format!("{}::{}_canonization", c.fam.label(), g.name());
    let (rep, _, _) = lib!(format!("{}(n={})", what, n), canon(x.as_ref(), g));
    ensure!(rep.n() == n, "num_vars", "{} returned {} variables for an input of {}", what, rep.n(), n);
    let o = orbit_min(&c.f, g);
    if let Err(e) = same_fn(rep.as_ref(), &o.min) {
        // is the representative the minimum in the library's OWN ordering? then the ordering, not
        // the canonization, deviates from numeric order: C08's business, not a C04 violation
        if let Ok(repm) = guard(|| to_model(rep.as_ref())) {
            if repm.n == n && ordering_is_to_blame(c.fam, &repm, &o.min) {
                return pass(false, vec!["library-order-differs-from-numeric-order(C08)".into()]);
            }
        }
        return fail(
            format!("not-minimum:{}", g.name()),
            format!("{} of {} is {} but the smallest function of its orbit ({} group elements enumerated) is {}: {}", what, c.f.short(), to_model(rep.as_ref()).short(), o.elements, o.min.short(), e),
        );
    }
    // canonizing the representative returns it unchanged
    let (rep2, _, _) = lib!(format!("{}(n={}) of a representative", what, n), canon(rep.as_ref(), g));
    if let Err(e) = same_fn(rep2.as_ref(), &o.min) {
        return fail(
            format!("not-idempotent:{}", g.name()),
            format!("{} applied to its own result {} gives something else: {}", what, o.min.short(), e),
        );
    }
    let nontrivial = o.min != c.f;
    let mut labels = vec![
        format!("fam:{}", c.fam.label()),
        format!("group:{}", g.name()),
        format!("n:{}", n),
        format!("class:{}", c.f.class()),
    ];
    if !nontrivial {
        labels.push("input-already-canonical".into());
    }
    if o.ties > 1 {
        labels.push("nontrivial-stabiliser".into());
    }
    pass(nontrivial, labels)
}

fn enumerate_orbit(t: Tier, shard: usize, nshards: usize, f: &mut dyn FnMut(Case) -> bool) {
    let max_n = t.pick(3, 4);
    let mut sc = ShardCounter::new(shard, nshards);
    for fam in [Fam::Dyn, Fam::Static] {
        for group in [Group::P, Group::N, Group::Npn] {
            for n in 0..=max_n {
                let count = 1u64 << (1u32 << n);
                for x in 0..count {
                    if !sc.mine() {
                        continue;
                    }
                    if !f(Case { fam, group, f: Tt::from_words(n, vec![x]) }) {
                        return;
                    }
                }
            }
        }
    }
}

// ---------------------------------------------------------------------------------------------
// walk validation through the hook

#[derive(Clone, Debug, Hash, Serialize, Deserialize)]
pub struct WalkCase {
    pub n: usize,
}

fn run_walk(c: &WalkCase) -> Verdict {
    let n = c.n;
    let (swaps, flips) = lib!("verif_walk_sequences", volute::verif_walk_sequences(n));
    let mut labels = vec![format!("n:{}", n)];
    // ---- index ranges
    for &s in &swaps {
        ensure!((s as usize) + 1 < n, "walk:swap-range", "n={}: swap index {} out of range", n, s);
    }
    for &fl in &flips {
        ensure!((fl as usize) < n, "walk:flip-range", "n={}: flip index {} out of range", n, fl);
    }
    let nfact = factorial(n);
    // ---- P walk: used by the library for n >= 2
    if n >= 2 {
        ensure!(swaps.len() == nfact, "walk:swap-count", "n={}: {} swaps, expected n! = {}", n, swaps.len(), nfact);
        let mut perm: Vec<u8> = (0..n as u8).collect();
        let mut seen = vec![false; nfact];
        for (k, &s) in swaps.iter().enumerate() {
            perm.swap(s as usize, s as usize + 1);
            let r = perm_rank(&perm);
            ensure!(!seen[r], "walk:perm-repeated", "n={}: the swap walk visits permutation {:?} twice (step {})", n, perm, k);
            seen[r] = true;
        }
        ensure!(seen.iter().all(|b| *b), "walk:perm-missing", "n={}: the swap walk does not visit every permutation", n);
        ensure!(perm.iter().enumerate().all(|(i, p)| *p as usize == i), "walk:perm-open", "n={}: the swap walk does not return to the identity ({:?})", n, perm);
        labels.push("p-walk".into());
    }
    // ---- N walk: used for n >= 1
    if n >= 1 {
        ensure!(flips.len() == 1usize << n, "walk:flip-count", "n={}: {} flips, expected 2^n", n, flips.len());
        let mut mask = 0usize;
        let mut out = 0usize;
        let mut seen = vec![false; 1usize << (n + 1)];
        for (k, &fl) in flips.iter().enumerate() {
            mask ^= 1 << fl;
            for _ in 0..2 {
                out ^= 1;
                let id = mask | (out << n);
                ensure!(!seen[id], "walk:mask-repeated", "n={}: the flip walk visits complementation {:#b} twice (flip {})", n, id, k);
                seen[id] = true;
            }
        }
        ensure!(seen.iter().all(|b| *b), "walk:mask-missing", "n={}: the flip walk does not visit every complementation", n);
        ensure!(mask == 0 && out == 0, "walk:mask-open", "n={}: the flip walk does not return to the start", n);
        labels.push("n-walk".into());
    }
    // ---- NPN nested walk: used for n >= 2. State (perm, mask, out) with the composition rules
    // derived from the definitions: swap_adjacent(s) exchanges entries s, s+1 of perm AND of
    // mask; flip(i) toggles mask[i]; not toggles out.
    if n >= 2 {
        let states = nfact << (n + 1);
        let mut seen = vec![0u64; (states + 63) / 64];
        let mut perm: Vec<u8> = (0..n as u8).collect();
        let mut mask = 0usize;
        let mut out = 0usize;
        let mut count = 0usize;
        for &s in &swaps {
            ensure!(mask == 0 && out == 0, "walk:npn-swap-with-pending-flips", "n={}: a swap happens while a complementation is pending (the decoded certificate would be wrong)", n);
            let s = s as usize;
            perm.swap(s, s + 1);
            let (bs, bt) = ((mask >> s) & 1, (mask >> (s + 1)) & 1);
            mask = (mask & !(3 << s)) | (bs << (s + 1)) | (bt << s);
            for &fl in &flips {
                mask ^= 1 << fl;
                for _ in 0..2 {
                    out ^= 1;
                    let id = (perm_rank(&perm) << (n + 1)) | mask | (out << n);
                    ensure!((seen[id / 64] >> (id % 64)) & 1 == 0, "walk:npn-repeated", "n={}: the NPN walk visits a group element twice", n);
                    seen[id / 64] |= 1 << (id % 64);
                    count += 1;
                }
            }
        }
        ensure!(count == states, "walk:npn-count", "n={}: the NPN walk visits {} elements, the group has {}", n, count, states);
        ensure!(mask == 0 && out == 0 && perm.iter().enumerate().all(|(i, p)| *p as usize == i), "walk:npn-open", "n={}: the NPN walk does not return to the identity", n);
        labels.push("npn-walk".into());
    }
    pass(n >= 2, labels)
}

fn strategy_walk(_t: Tier) -> BoxedStrategy<WalkCase> {
    (0usize..=8).prop_map(|n| WalkCase { n }).boxed()
}

fn enumerate_walk(t: Tier, shard: usize, nshards: usize, f: &mut dyn FnMut(WalkCase) -> bool) {
    let mut sc = ShardCounter::new(shard, nshards);
    for n in 0..=t.pick(8usize, 9) {
        if sc.mine() && !f(WalkCase { n }) {
            return;
        }
    }
}

// ---------------------------------------------------------------------------------------------
// metamorphic orbit invariance

#[derive(Clone, Debug, Hash, Serialize, Deserialize)]
pub struct InvCase {
    pub fam: Fam,
    pub group: Group,
    pub f: Tt,
    pub h: Tt,
    /// a group element: permutation seed (sorted-by-key order) and mask
    pub perm_keys: Vec<u16>,
    pub mask: u32,
}

fn strategy_inv(t: Tier) -> BoxedStrategy<InvCase> {
    let big = t.pick(2u32, 4u32);
    (arb_fam(), arb_group(), prop_oneof![3 => 0usize..=4, 8 => 5usize..=6, big => Just(7usize), 1 => Just(8usize)])
        .prop_flat_map(|(fam, group, n)| {
            (arb_canon_tt(n), arb_canon_tt(n), proptest::collection::vec(any::<u16>(), n), 0u32..(1u32 << (n + 1)))
                .prop_map(move |(f, h, perm_keys, mask)| InvCase { fam, group, f, h, perm_keys, mask })
        })
        .boxed()
}

fn invariant(t: &Tt, g: Group) -> usize {
    let ones = t.count_ones();
    match g {
        Group::P => ones,
        _ => std::cmp::min(ones, t.size() - ones),
    }
}

fn run_inv(c: &InvCase) -> Verdict {
    let n = c.f.n;
    let g = c.group;
    // permutation from keys (stable argsort): every permutation is reachable, shrinks to identity
    let mut order: Vec<u8> = (0..n as u8).collect();
    order.sort_by_key(|i| c.perm_keys[*i as usize]);
    let (perm, mask): (Vec<u8>, u32) = match g {
        Group::P => (order, 0),
        Group::N => ((0..n as u8).collect(), c.mask),
        Group::Npn => (order, c.mask),
    };
    let moved = apply(&c.f, &perm, mask);
    let (x, y, z) = match (load(c.fam, &c.f), load(c.fam, &moved), load(c.fam, &c.h)) {
        (Ok(x), Ok(y), Ok(z)) => (x, y, z),
        _ => return pass(false, vec!["skipped:unloadable".into()]),
    };
    let what = format!("{}::{}_canonization", c.fam.label(), g.name());
    let (r1, _, _) = lib!(format!("{}(n={})", what, n), canon(x.as_ref(), g));
    let (r2, _, _) = lib!(format!("{}(n={})", what, n), canon(y.as_ref(), g));
    let m1 = to_model(r1.as_ref());
    let m2 = to_model(r2.as_ref());
    ensure!(
        m1 == m2,
        format!("orbit-variant:{}", g.name()),
        "{}: f={} and its image {} under perm={:?} mask={:#b} (same orbit) get different representatives {} and {}",
        what, c.f.short(), moved.short(), perm, mask, m1.short(), m2.short()
    );
    // the representative is never larger than the argument, and has the orbit invariants of f
    ensure!(lib_le(c.fam, &m1, &c.f).unwrap_or(true), format!("rep-larger:{}", g.name()), "{}: representative {} is larger (library cmp) than the argument {}", what, m1.short(), c.f.short());
    ensure!(invariant(&m1, g) == invariant(&c.f, g), format!("rep-outside-orbit:{}", g.name()), "{}: representative {} cannot be in the orbit of {} (different number of ones)", what, m1.short(), c.f.short());
    // functions of different orbits must get different representatives
    let mut separated = false;
    if invariant(&c.h, g) != invariant(&c.f, g) {
        let (r3, _, _) = lib!(format!("{}(n={})", what, n), canon(z.as_ref(), g));
        let m3 = to_model(r3.as_ref());
        ensure!(m3 != m1, format!("orbits-merged:{}", g.name()), "{}: {} and {} are in different orbits but get the same representative {}", what, c.f.short(), c.h.short(), m1.short());
        separated = true;
    }
    let mut labels = vec![format!("fam:{}", c.fam.label()), format!("group:{}", g.name()), format!("n:{}", n)];
    if separated {
        labels.push("separation-checked".into());
    }
    pass(moved != c.f, labels)
}

// ---------------------------------------------------------------------------------------------
// inputs whose minimum is reached at a chosen position of the library's walk

#[derive(Clone, Debug, Hash, Serialize, Deserialize)]
pub struct PosCase {
    pub fam: Fam,
    pub group: Group,
    /// a generated function; its (library) representative c is moved so that the walk meets c at
    /// the chosen position
    pub r: Tt,
    /// 0..=11: first, second, third, last, last-1, middle-1, middle, middle+1, block boundary-1,
    /// block boundary, block boundary+1, uniformly drawn (pos_raw)
    pub pos_class: u8,
    pub pos_raw: u64,
}

/// number of compare points of the library's walk and the group element (perm, mask incl. output
/// bit) in effect at compare point `idx`, replayed from the sequences the hook exposes
pub fn walk_element(n: usize, g: Group, idx: u64) -> (u64, Vec<u8>, u32) {
    let (swaps, flips) = volute::verif_walk_sequences(n);
    let mut perm: Vec<u8> = (0..n as u8).collect();
    let mut mask: u32 = 0;
    let total: u64 = match g {
        Group::P => swaps.len() as u64,
        Group::N => 2 * flips.len() as u64,
        Group::Npn => 2 * swaps.len() as u64 * flips.len() as u64,
    };
    let mut k = 0u64;
    match g {
        Group::P => {
            for s in &swaps {
                perm.swap(*s as usize, *s as usize + 1);
                if k == idx {
                    return (total, perm, mask);
                }
                k += 1;
            }
        }
        Group::N => {
            for f in &flips {
                mask ^= 1 << f;
                for _ in 0..2 {
                    mask ^= 1 << n;
                    if k == idx {
                        return (total, perm, mask);
                    }
                    k += 1;
                }
            }
        }
        Group::Npn => {
            let block = 2 * flips.len() as u64;
            for s in &swaps {
                perm.swap(*s as usize, *s as usize + 1);
                if idx >= k + block {
                    // the flip cycle is closed: skip the whole block
                    k += block;
                    continue;
                }
                for f in &flips {
                    mask ^= 1 << f;
                    for _ in 0..2 {
                        mask ^= 1 << n;
                        if k == idx {
                            return (total, perm, mask);
                        }
                        k += 1;
                    }
                }
            }
        }
    }
    (total, (0..n as u8).collect(), 0)
}

/// the function f with apply(f, perm, mask) == c
pub fn unapply(c: &Tt, perm: &[u8], mask: u32) -> Tt {
    let n = c.n;
    let out = (mask >> n) & 1 != 0;
    Tt::from_fn(n, |x| {
        let mut y = 0usize;
        for i in 0..n {
            y |= (((x >> perm[i]) & 1) ^ ((mask as usize >> i) & 1)) << i;
        }
        c.get(y) ^ out
    })
}

pub fn position(total: u64, block: u64, class: u8, raw: u64) -> u64 {
    if total == 0 {
        return 0;
    }
    let last = total - 1;
    let nblocks = std::cmp::max(1, total / std::cmp::max(block, 1));
    let b = (raw % nblocks) * block;
    let p = match class {
        0 => 0,
        1 => 1,
        2 => 2,
        3 => last,
        4 => last.saturating_sub(1),
        5 => (total / 2).saturating_sub(1),
        6 => total / 2,
        7 => total / 2 + 1,
        8 => b.saturating_sub(1),
        9 => b,
        10 => b + 1,
        _ => raw % total,
    };
    std::cmp::min(p, last)
}

fn strategy_pos(t: Tier) -> BoxedStrategy<PosCase> {
    let w8 = t.pick(1u32, 3u32);
    (arb_fam(), arb_group(), prop_oneof![2 => 2usize..=4, 6 => 5usize..=6, 6 => Just(7usize), w8 => Just(8usize)], 0u8..=11, any::<u64>())
        .prop_flat_map(|(fam, group, n, pos_class, pos_raw)| arb_tt(n).prop_map(move |r| PosCase { fam, group, r, pos_class, pos_raw }))
        .boxed()
}

/// builds the positioned input; None if the library cannot canonize r (judged elsewhere)
pub fn positioned_input(c: &PosCase) -> Option<(Tt, Tt, u64, u64)> {
    let n = c.r.n;
    let g = c.group;
    let x = load(c.fam, &c.r).ok()?;
    let (rep, _, _) = guard(|| canon(x.as_ref(), g)).ok()?;
    let cm = guard(|| to_model(rep.as_ref())).ok()?;
    if cm.n != n {
        return None;
    }
    let (_, flips) = volute::verif_walk_sequences(n);
    let block = if g == Group::Npn { 2 * flips.len() as u64 } else { 2 };
    let (total, _, _) = walk_element(n, g, u64::MAX);
    let idx = position(total, block, c.pos_class, c.pos_raw);
    let (_, perm, mask) = walk_element(n, g, idx);
    Some((unapply(&cm, &perm, mask), cm, idx, total))
}

fn run_pos(c: &PosCase) -> Verdict {
    let n = c.r.n;
    let g = c.group;
    let (f, cm, idx, total) = match positioned_input(c) {
        Some(v) => v,
        None => return pass(false, vec!["skipped:cannot-position".into()]),
    };
    let x = match load(c.fam, &f) {
        Ok(x) => x,
        Err(_) => return pass(false, vec!["skipped:unloadable".into()]),
    };
    let what = format!("{}::{}_canonization", c.fam.label(), g.name());
    let (rep, _, _) = lib!(format!("{}(n={})", what, n), canon(x.as_ref(), g));
    let got = to_model(rep.as_ref());
    // f is in the orbit of c by construction (the harness applied a group element): the
    // representatives must coincide; and no representative may exceed a known orbit member
    ensure!(
        lib_le(c.fam, &got, &cm).unwrap_or(true) && lib_le(c.fam, &got, &f).unwrap_or(true),
        format!("walkpos:not-minimum:{}", g.name()),
        "{} of {} returns {} but {} (smaller) is in the same orbit; the input was built so that the walk meets it at compare point {} of {}",
        what, f.short(), got.short(), cm.short(), idx, total
    );
    if n <= 6 {
        let o = orbit_min(&f, g);
        let excused = got != o.min && ordering_is_to_blame(c.fam, &got, &o.min);
        ensure!(got == o.min || excused, format!("walkpos:not-minimum:{}", g.name()), "{} of {} returns {} but the orbit minimum is {} (walk position {} of {})", what, f.short(), got.short(), o.min.short(), idx, total);
    }
    let (rep2, _, _) = lib!(format!("{}(n={})", what, n), canon(load(c.fam, &cm).map_err(|_| ()).unwrap_or_else(|_| x.dup()).as_ref(), g));
    let got2 = to_model(rep2.as_ref());
    ensure!(got2 == got, format!("walkpos:orbit-variant:{}", g.name()), "{}: {} and {} are in one orbit but get representatives {} and {} (walk position {} of {})", what, f.short(), cm.short(), got.short(), got2.short(), idx, total);
    pass(f != cm, vec![format!("fam:{}", c.fam.label()), format!("group:{}", g.name()), format!("n:{}", n), format!("pos:{}", c.pos_class)])
}

pub fn def() -> PropDef {
    PropDef {
        id: "C04",
        rule: "orbit/orbit-large: cases = (family, group in {P,N,NPN}, f); the library representative must equal (on every assignment) the minimum of the orbit enumerated by the harness's own next-permutation x polarity counter x output bit under its own numeric order, canonization must not panic for any n>=0, and canonizing the representative must return it. Exhaustive for all f of n<=3 (quick) / n<=4 (thorough) x 3 groups x 2 families; generated f (table generator + few-ones + symmetric + partially symmetric (multiplexer of a function symmetric in two variables) + weighted-vote + multiplexer-of-self-dual-functions classes) for n in 0..=6 and, in orbit-large, n in {7,8} (runtime-generated walks, multi-word compare). Non-trivial = f is not its own representative (already-canonical inputs are labelled separately). walk: for n in 0..=8 (thorough 9) the swap/flip sequences obtained through the hook are replayed on abstract (perm, mask, out) state: index ranges, every permutation / complementation / NPN element visited exactly once, closed cycles, no swap while a complementation is pending. walkpos: a generated function's representative c is moved by the group element in effect at a chosen compare point of the library's walk (positions: first three, last two, middle-1/middle/middle+1, a block boundary -1/0/+1, uniformly drawn; sequences read through the hook for GENERATION only), so that the walk meets the minimum exactly there; the returned representative must not exceed c, must equal canon(c), and (n<=6) must equal the enumerated orbit minimum; n in 2..=8. invariance: canon(g.f) == canon(f) for a generated group element g applied by the harness, representative <= argument and with the orbit invariant (number of ones, up to complement for N/NPN), and functions with different invariants get different representatives; n up to 8.",
        assumptions: vec![
            "value(), from_blocks()/set_bit() as observation/loading channel",
            "the hook verif_walk_sequences repeats the size dispatch of the real functions; a change to the dispatch itself is only seen by the orbit and invariance sub-checks",
            "n = 8 is sampled thinly (one NPN orbit has 2*10^7 elements), n >= 9 not at all",
        ],
        subs: vec![
            Box::new(Sub {
                name: "orbit",
                rule: "n<=6, independent orbit oracle",
                strategy: strategy_small,
                cases: (20_000, 200_000),
                exhaustive: Some(enumerate_orbit),
                exhaustive_note: "all functions of n<=3 (quick) / n<=4 (thorough) x {P,N,NPN} x {Lut,LutN}",
                run: run_orbit,
            }),
            Box::new(Sub {
                name: "orbit-large",
                rule: "n in {7,8}, independent orbit oracle",
                strategy: strategy_large,
                cases: (96, 1_600),
                exhaustive: None,
                exhaustive_note: "",
                run: run_orbit,
            }),
            Box::new(Sub {
                name: "walk",
                rule: "hook: swap/flip sequences are closed cycles visiting every group element once",
                strategy: strategy_walk,
                cases: (0, 0),
                exhaustive: Some(enumerate_walk),
                exhaustive_note: "every n in 0..=8 (quick) / 0..=9 (thorough); complete for the hard-coded tables n<=6",
                run: run_walk,
            }),
            Box::new(Sub {
                name: "walkpos",
                rule: "inputs built so that the orbit minimum is met at a chosen compare point of the library's walk (first, last, middle, block boundaries +-1, uniformly drawn): representative must equal that of the known orbit member; orbit oracle for n<=6",
                strategy: strategy_pos,
                cases: (1_500, 60_000),
                exhaustive: None,
                exhaustive_note: "",
                run: run_pos,
            }),
            Box::new(Sub {
                name: "invariance",
                rule: "metamorphic: same orbit => same representative; different invariants => different representatives",
                strategy: strategy_inv,
                cases: (6_000, 400_000),
                exhaustive: None,
                exhaustive_note: "",
                run: run_inv,
            }),
        ],
    }
}
