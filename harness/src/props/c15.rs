//! C15 — Lut to Esop conversion yields the unique positive-polarity Reed-Muller form.

use proptest::prelude::*;
use serde::{Deserialize, Serialize};

use volute::sop::Esop;
use volute::Lut;

use crate::engine::*;
use crate::gen::*;
use crate::model::Tt;
use crate::sopx::*;
use crate::{ensure, lib};

#[derive(Clone, Debug, Hash, Serialize, Deserialize)]
pub struct Case {
    pub f: Tt,
}

/// ANF coefficient of the monomial S: XOR of f over all assignments contained in S
fn anf(f: &Tt) -> Vec<bool> {
    (0..f.size())
        .map(|s| {
            let mut a = false;
            for m in 0..f.size() {
                if m & !s == 0 {
                    a ^= f.get(m);
                }
            }
            a
        })
        .collect()
}

fn strategy(_t: Tier) -> BoxedStrategy<Case> {
    arb_n(0, 12).prop_flat_map(|n| arb_tt(n).prop_map(|f| Case { f })).boxed()
}

fn run(c: &Case) -> Verdict {
    let n = c.f.n;
    let l = lib!("Lut::from_blocks", to_lut(&c.f));
    let e = lib!("Esop::from(&Lut)", Esop::from(&l));
    let coef = anf(&c.f);
    ensure!(e.num_vars() == n, "num_vars", "Esop::from(&lut) has {} variables for a Lut of {}", e.num_vars(), n);
    let mut seen = std::collections::BTreeSet::new();
    for cube in e.cubes() {
        let m = CubeM::of(cube);
        let lits = match &m {
            CubeM::Zero => return fail("zero-cube", format!("Esop::from({}) contains a contradictory cube", c.f.short())),
            CubeM::Lits(l) => l.clone(),
        };
        ensure!(lits.values().all(|p| *p), "negative-literal", "Esop::from({}) contains the cube {} with a negative literal", c.f.short(), m.show());
        ensure!(lits.keys().all(|v| *v < n), "var-range", "Esop::from({}) contains {} with a variable >= {}", c.f.short(), m.show(), n);
        let s: usize = lits.keys().map(|v| 1usize << v).sum();
        ensure!(seen.insert(s), "duplicate", "Esop::from({}) contains the cube {} twice", c.f.short(), m.show());
        ensure!(coef[s], "extra-monomial", "Esop::from({}) contains {} whose Reed-Muller coefficient is 0", c.f.short(), m.show());
    }
    for (s, a) in coef.iter().enumerate() {
        ensure!(!*a || seen.contains(&s), "missing-monomial", "Esop::from({}) lacks the monomial with variable set {:#b} whose coefficient is 1", c.f.short(), s);
    }
    // by value: same
    let e2 = lib!("Esop::from(Lut)", Esop::from(l.clone()));
    ensure!(e2 == e, "byval", "Esop::from(lut) != Esop::from(&lut) for {}", c.f.short());
    // the same function reached by another history gives an equal Esop
    let mut l3 = Lut::zero(n);
    for m in 0..c.f.size() {
        if c.f.get(m) {
            l3.set_bit(m);
        }
    }
    let l3 = !(!l3);
    let e3 = lib!("Esop::from(&Lut)", Esop::from(&l3));
    ensure!(e3 == e, "history", "the same function {} built by two routes gives different Esops", c.f.short());
    // and back
    let back = lib!("Lut::from(&Esop)", Lut::from(&e));
    ensure!(lut_model(&back) == c.f, "roundtrip", "Lut::from(Esop::from({})) = {}", c.f.short(), lut_model(&back).short());
    let back2 = lib!("Lut::from(Esop)", Lut::from(e.clone()));
    ensure!(lut_model(&back2) == c.f, "roundtrip:byval", "Lut::from(esop) by value differs");
    for m in 0..c.f.size() {
        ensure!(e.value(m) == c.f.get(m), "value", "Esop::from({}).value({}) = {}", c.f.short(), m, e.value(m));
    }
    if e.is_zero() {
        ensure!(c.f.is_zero(), "is_zero", "is_zero() for {}", c.f.short());
    }
    if e.is_one() {
        ensure!(c.f.is_one(), "is_one", "is_one() for {}", c.f.short());
    }
    let big = coef.iter().enumerate().filter(|(s, a)| **a && s.count_ones() >= 2).count();
    pass(big >= 3, vec![format!("n:{}", n), format!("class:{}", c.f.class())])
}

fn enumerate(t: Tier, shard: usize, nshards: usize, f: &mut dyn FnMut(Case) -> bool) {
    let mut sc = ShardCounter::new(shard, nshards);
    for n in 0..=t.pick(3usize, 4) {
        let count = 1u64 << (1u32 << n);
        for x in 0..count {
            if sc.mine() && !f(Case { f: Tt::from_words(n, vec![x]) }) {
                return;
            }
        }
    }
}

// ---------------------------------------------------------------------------------------------
// operators on Esops

#[derive(Clone, Debug, Hash, Serialize, Deserialize)]
pub struct OpCase {
    pub n: usize,
    pub e: XB,
}

fn strategy_ops(_t: Tier) -> BoxedStrategy<OpCase> {
    (0usize..=8).prop_flat_map(|n| arb_xb(n).prop_map(move |e| OpCase { n, e })).boxed()
}

fn run_ops(c: &OpCase) -> Verdict {
    let n = c.n;
    let want = c.e.model(n);
    let e = lib!("Esop construction", c.e.build(n));
    ensure!(e.num_vars() == n, "num_vars", "Esop has {} variables, built for {}", e.num_vars(), n);
    for m in 0..want.size() {
        let got = lib!("Esop::value", e.value(m));
        ensure!(got == want.get(m), "ops:value", "Esop `{:?}`.value({}) = {} but the XOR of its cubes / the operator definition gives {}", c.e, m, got, want.get(m));
    }
    let l = lib!("Lut::from(&Esop)", Lut::from(&e));
    ensure!(lut_model(&l) == want, "ops:to_lut", "Lut::from(&esop) = {} but the function is {} (esop {:?})", lut_model(&l).short(), want.short(), c.e);
    if e.is_zero() {
        ensure!(want.is_zero(), "ops:is_zero", "is_zero() holds for an Esop denoting {}", want.short());
    }
    if e.is_one() {
        ensure!(want.is_one(), "ops:is_one", "is_one() holds for an Esop denoting {}", want.short());
    }
    // the same object as both operands: e ^ e is constant zero
    {
        let r = lib!("Esop ^ with the same object on both sides", &e ^ &e);
        for m in 0..want.size() {
            ensure!(!r.value(m), "ops:alias", "e ^ e with the same object e = `{:?}` on both sides has value({}) = true", c.e, m);
        }
    }
    let has_op = matches!(c.e, XB::Xor(..) | XB::Not(..));
    pass(has_op && !want.is_const(), vec![format!("n:{}", n), format!("cubes:{}", std::cmp::min(e.num_cubes(), 16))])
}

#[derive(Clone, Debug, Hash, Serialize, Deserialize)]
pub struct WideCase {
    pub n: usize,
    pub e: XB,
    pub ms: Vec<u32>,
}

fn strategy_wide(_t: Tier) -> BoxedStrategy<WideCase> {
    prop_oneof![3 => 11usize..=31, 2 => Just(32usize), 1 => 16usize..=18]
        .prop_flat_map(|n| (arb_xb_wide(n), proptest::collection::vec(any::<u32>(), 8..=16)).prop_map(move |(e, ms)| WideCase { n, e, ms }))
        .boxed()
}

fn run_wide(c: &WideCase) -> Verdict {
    let n = c.n;
    let mut leaf = Vec::new();
    c.e.leaf_cubes(&mut leaf);
    let ms = wide_assignments(n, &c.ms, &leaf);
    let e = lib!(format!("Esop construction over {} variables ({:?})", n, c.e), c.e.build(n));
    ensure!(e.num_vars() == n, "wide:num_vars", "Esop has {} variables, built for {}", e.num_vars(), n);
    let cubes: Vec<CubeM> = e.cubes().iter().map(CubeM::of).collect();
    for &m in &ms {
        let want = c.e.eval_at(m);
        let got = lib!("Esop::value", e.value(m as usize));
        ensure!(got == want, "wide:value", "Esop `{:?}` over {} variables: value({:#x}) = {} but the XOR of its cubes / the operator definition gives {}", c.e, n, m, got, want);
        let by_cubes = cubes.iter().fold(false, |acc, q| acc ^ q.value(m));
        ensure!(by_cubes == want, "wide:cubes", "Esop `{:?}` over {} variables: cubes() evaluate to {} on {:#x}, expected {}", c.e, n, by_cubes, m, want);
    }
    for q in &cubes {
        ensure!(!q.max_var().map(|v| v >= n).unwrap_or(false), "wide:var-range", "Esop `{:?}`: cube {} has a variable >= {}", c.e, q.show(), n);
    }
    if e.is_zero() {
        ensure!(ms.iter().all(|m| !c.e.eval_at(*m)), "wide:is_zero", "is_zero() holds for the Esop `{:?}` which is not constant zero", c.e);
    }
    if e.is_one() {
        ensure!(ms.iter().all(|m| c.e.eval_at(*m)), "wide:is_one", "is_one() holds for the Esop `{:?}` which is not constant one", c.e);
    }
    let has_op = matches!(c.e, XB::Xor(..) | XB::Not(..));
    let hi = leaf.iter().any(|l| l.max_var().map(|v| v >= 16).unwrap_or(false));
    pass(has_op && hi, vec![format!("n:{}", if n == 32 { "32" } else if n > 16 { "17-31" } else { "11-16" })])
}

pub fn def() -> PropDef {
    PropDef {
        id: "C15",
        rule: "anf: cases = functions f of n in 0..=12 from the table generator (uniform, wordwise, sparse, symmetric, expression classes); Esop::from(&f).cubes(), read through pos_vars()/neg_vars(), must be exactly the set {S : a_S = 1} where a_S = XOR of f over all assignments contained in S is computed by the harness from the definition: no negative literal, no variable >= n, no repetition, nothing missing, nothing extra; by-value conversion equal; the same function built by another route gives an == Esop; Lut::from(&e) and Lut::from(e) give f back; value(m) = f(m); is_zero/is_one only for the constants. Exhaustive for all functions n<=3 (quick) / n<=4 (thorough). Non-trivial = the ANF has >= 3 monomials of degree >= 2. ops: cases = (n<=8, Esop description: zero/one/nth_var(_inv)/from_cubes of generated mixed-polarity cube lists with designed redundancy/from a Lut, ^ in 4 forms, ! in 2 forms, nested up to depth 3); value(m) on every assignment and Lut::from(&e) must equal the XOR / complement of the operand functions computed in the model; is_zero/is_one imply the constant. Non-trivial = an operator at the root and a non-constant function.",
        assumptions: vec!["cube order inside the Esop is not constrained", "Esop::from_cubes is given variables < n as it requires"],
        subs: vec![
            Box::new(Sub { name: "anf", rule: "see property rule", strategy, cases: (50_000, 1_000_000), exhaustive: Some(enumerate), exhaustive_note: "all functions of n<=3 (quick) / n<=4 (thorough)", run }),
            Box::new(Sub { name: "ops", rule: "see property rule", strategy: strategy_ops, cases: (100_000, 2_000_000), exhaustive: None, exhaustive_note: "", run: run_ops }),
            Box::new(Sub { name: "wide", rule: "n in 11..=32 (32 and 16..18 over-represented): Esop descriptions (literals, from_cubes of mixed-polarity cube lists with variables biased to the top of the range and to 15/16/17/30/31, ^ in 4 forms, ! in 2 forms); value(m) and the XOR of cubes() read back must equal the description on generated 32-bit assignments, the constant / alternating ones and a satisfying assignment plus a near miss per cube; no variable >= n; is_zero/is_one only if every sampled value agrees. Non-trivial = an operator at the root and a literal of a variable >= 16.", strategy: strategy_wide, cases: (60_000, 1_500_000), exhaustive: None, exhaustive_note: "", run: run_wide }),
        ],
    }
}
