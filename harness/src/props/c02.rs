//! C02 — equality, hashing and ordering are extensional; the block view is always well formed.
//!
//! The library is driven through histories of public API calls; after every step the changed
//! slot is observed through value() (its *function*) and through blocks()/==/Hash/cmp (its
//! *representation*), and the two views must agree. The correctness of what an operation
//! computes is deliberately not judged here (other properties do that).

use std::cmp::Ordering;
use std::collections::{BTreeSet, HashSet};
use std::hash::{Hash, Hasher};

use proptest::prelude::*;
use serde::{Deserialize, Serialize};

use crate::adapter::{Fam, Tab, T};
use crate::common::*;
use crate::engine::*;
use crate::gen::*;
use crate::model::{words_for, Tt};
use crate::ops::*;

#[derive(Clone, Debug, Hash, Serialize, Deserialize)]
pub struct Case {
    pub fam: Fam,
    pub h: History,
}

const OPTS: OpOptions = OpOptions {
    random: true,
    raw_hex: true,
    canon_max_n: 6,
    successor: true,
};

fn strategy_steps(_t: Tier) -> BoxedStrategy<Case> {
    arb_fam_n(0, 13)
        .prop_flat_map(|(fam, n)| arb_history(n, fam, OPTS, 1, 2).prop_map(move |h| Case { fam, h }))
        .boxed()
}

fn strategy_hist(t: Tier) -> BoxedStrategy<Case> {
    let max_len = t.pick(40, 120);
    arb_fam_n(0, 13)
        .prop_flat_map(move |(fam, n)| {
            // long histories on large tables are slow (pairwise value() scans): scale the length
            let len = if n >= 10 { max_len / 4 } else if n >= 8 { max_len / 2 } else { max_len };
            arb_history(n, fam, OPTS, 3, len).prop_map(move |h| Case { fam, h })
        })
        .boxed()
}

struct Key(T);
impl PartialEq for Key {
    fn eq(&self, o: &Key) -> bool {
        self.0.eq_(o.0.as_ref())
    }
}
impl Eq for Key {}
impl Hash for Key {
    fn hash<H: Hasher>(&self, h: &mut H) {
        h.write_u64(self.0.hash64())
    }
}
impl PartialOrd for Key {
    fn partial_cmp(&self, o: &Key) -> Option<Ordering> {
        Some(self.0.cmp_(o.0.as_ref()))
    }
}
impl Ord for Key {
    fn cmp(&self, o: &Key) -> Ordering {
        self.0.cmp_(o.0.as_ref())
    }
}

/// representation view must agree with the functional view for the pair (x, y)
fn check_pair(x: &dyn Tab, mx: &Tt, y: &dyn Tab, my: &Tt, what: &str) -> Result<(), (String, String)> {
    let same = mx == my;
    let e = |sig: &str, m: String| Err((sig.to_string(), m));
    if x.eq_(y) != same || x.ne_(y) == same {
        return e(
            "eq",
            format!(
                "{}: `==` is {} / `!=` is {} but the two tables {} on every assignment (x={} blocks {:x?}, y={} blocks {:x?})",
                what, x.eq_(y), x.ne_(y), if same { "agree" } else { "differ" }, mx.short(), x.blocks(), my.short(), y.blocks()
            ),
        );
    }
    if (x.cmp_(y) == Ordering::Equal) != same {
        return e(
            "cmp",
            format!("{}: cmp = {:?} but the tables {} (x={} blocks {:x?}, y={} blocks {:x?})", what, x.cmp_(y), if same { "are the same function" } else { "differ" }, mx.short(), x.blocks(), my.short(), y.blocks()),
        );
    }
    if x.partial_cmp_(y) != Some(x.cmp_(y)) {
        return e("partial_cmp", format!("{}: partial_cmp {:?} != Some(cmp {:?})", what, x.partial_cmp_(y), x.cmp_(y)));
    }
    if same && x.hash64() != y.hash64() {
        return e(
            "hash",
            format!("{}: equal functions hash differently (x={} blocks {:x?}, y blocks {:x?})", what, mx.short(), x.blocks(), y.blocks()),
        );
    }
    Ok(())
}

pub fn run(c: &Case) -> Verdict {
    let fam = c.fam;
    let f = fam.get();
    let n = c.h.n;
    let mut models: Vec<Tt> = c.h.init.clone();
    let mut fail_info: Option<(String, String)> = None;
    let mut paths_equal = false; // two slots with equal models reached by different routes
    let mut wrote = 0usize;
    let mut panicked = false;
    let mut final_pool: Vec<T> = Vec::new();
    let nsteps = c.h.steps.len();

    let res = run_history(fam, &c.h, |k, st, out, pool, changed, produced| {
        if *out == Outcome::Panic {
            panicked = true;
            return Ok(());
        }
        if k + 1 == nsteps {
            final_pool = pool.iter().map(|t| t.dup()).collect();
        }
        let ctx = format!("after step {} ({:?} a={} b={} dst={}) on {}", k, st.op, st.a, st.b, st.dst, fam.label());
        let d = match changed {
            Some(d) => d,
            None => {
                // a table of another size was produced (not stored): it must still be well formed
                // and equal to a from_blocks twin of the function it denotes
                if let Some(x) = produced {
                    if let Err(e) = well_formed(x) {
                        fail_info = Some(("malformed".into(), format!("{}: produced table of {} variables: {}", ctx, x.n(), e)));
                        return Err("stop".into());
                    }
                    if let Ok(mx) = guard(|| to_model(x)) {
                        if let Ok(twin) = guard(|| x.fam().get().from_blocks(mx.n, &mx.w)) {
                            if let Ok(Err((sig, m))) = guard(|| check_pair(x, &mx, twin.as_ref(), &mx, "produced table vs. from_blocks twin of the same function")) {
                                fail_info = Some((sig, format!("{}: {}", ctx, m)));
                                return Err("stop".into());
                            }
                        }
                    }
                }
                return Ok(());
            }
        };
        wrote += 1;
        let x = pool[d].as_ref();
        // representation invariant
        if let Err(e) = well_formed(x) {
            fail_info = Some(("malformed".into(), format!("{}: {}", ctx, e)));
            return Err("stop".into());
        }
        // functional view
        let mx = match guard(|| to_model(x)) {
            Ok(m) => m,
            Err(_) => return Ok(()), // value() panics: not this property's statement
        };
        models[d] = mx.clone();
        // a freshly built twin of the same function
        if let Ok(twin) = guard(|| f.from_blocks(n, &mx.w)) {
            if let Ok(Err((sig, m))) = guard(|| check_pair(x, &mx, twin.as_ref(), &mx, "value vs. from_blocks twin of the same function")) {
                fail_info = Some((sig, format!("{}: {}", ctx, m)));
                return Err("stop".into());
            }
        }
        for s in 0..pool.len() {
            if s != d && models[s] == mx {
                paths_equal = true;
            }
            match guard(|| check_pair(x, &mx, pool[s].as_ref(), &models[s], &format!("slot {} vs slot {}", d, s))) {
                Ok(Err((sig, m))) => {
                    fail_info = Some((sig, format!("{}: {}", ctx, m)));
                    return Err("stop".into());
                }
                _ => {}
            }
        }
        Ok(())
    });
    if let Some((sig, msg)) = fail_info {
        return fail(sig, msg);
    }
    if let Err(e) = res {
        // could not even load the well-formed initial pool
        return pass(false, vec![format!("skipped:{}", e.chars().take(24).collect::<String>())]);
    }

    // final state: sets, and (dynamic family) tables of other sizes with the same block
    if !panicked {
        let fin = guard(|| -> Result<(), (String, String)> {
            let pool: Vec<T> = if c.h.steps.is_empty() { init_pool(fam, &c.h).unwrap_or_default() } else { final_pool.iter().map(|t| t.dup()).collect() };
            if pool.iter().any(|t| t.as_ref().n() != n) || pool.is_empty() {
                return Ok(());
            }
            // random() makes the replayed pool differ from `models`: recompute from the pool
            let ms: Vec<Tt> = pool.iter().map(|t| to_model(t.as_ref())).collect();
            let distinct: HashSet<&Tt> = ms.iter().collect();
            let hs: HashSet<Key> = pool.iter().map(|t| Key(t.dup())).collect();
            let bs: BTreeSet<Key> = pool.iter().map(|t| Key(t.dup())).collect();
            if hs.len() != distinct.len() {
                return Err(("hashset".into(), format!("HashSet of the final pool has {} elements, {} distinct functions ({:?})", hs.len(), distinct.len(), ms.iter().map(|m| m.short()).collect::<Vec<_>>())));
            }
            if bs.len() != distinct.len() {
                return Err(("btreeset".into(), format!("BTreeSet of the final pool has {} elements, {} distinct functions", bs.len(), distinct.len())));
            }
            if fam == Fam::Dyn {
                for (t, m) in pool.iter().zip(ms.iter()) {
                    for n2 in [n.wrapping_sub(1), n + 1] {
                        if n2 > 14 || n2 == n || words_for(n2) != words_for(n) {
                            continue;
                        }
                        let other = Tt::from_words(n2, m.w.clone());
                        let y = f.from_blocks(n2, &other.w);
                        if t.eq_(y.as_ref()) || t.cmp_(y.as_ref()) == Ordering::Equal || !t.ne_(y.as_ref()) {
                            return Err(("eq-across-sizes".into(), format!("{} and {} compare equal although they have different numbers of variables", m.short(), other.short())));
                        }
                    }
                }
            }
            Ok(())
        });
        if let Ok(Err((sig, msg))) = fin {
            return fail(sig, msg);
        }
    }

    let mut labels = vec![
        format!("fam:{}", fam.label()),
        format!("size:{}", n_label(n)),
        format!("n:{}", n),
        format!("len:{}", match c.h.steps.len() { 0 => "0", 1..=2 => "1-2", 3..=10 => "3-10", 11..=40 => "11-40", _ => ">40" }),
    ];
    if panicked {
        labels.push("step-panicked(not judged here)".into());
    }
    if paths_equal {
        labels.push("equal-by-different-paths".into());
    }
    let nontrivial = wrote >= 1 && c.h.init.iter().any(|t| !t.is_const()) && (c.h.steps.len() <= 2 || paths_equal);
    pass(nontrivial, labels)
}

/// all tables of n <= 3 (quick: n <= 2 plus a stride of n = 3) x every unary op with all arguments
fn enumerate(t: Tier, shard: usize, nshards: usize, f: &mut dyn FnMut(Case) -> bool) {
    let mut sc = ShardCounter::new(shard, nshards);
    for fam in [Fam::Dyn, Fam::Static] {
        for n in 0..=3usize {
            let count = 1u64 << (1u32 << n);
            let size = 1usize << n;
            let mut ops: Vec<Op> = vec![Op::Clone, Op::HexRoundTrip, Op::ConvRoundTrip, Op::PCanon, Op::NCanon, Op::NpnCanon, Op::Successor, Op::XorTwice];
            for form in 0..4 {
                ops.push(Op::Not(form));
            }
            for n2 in 0..=8 {
                ops.push(Op::CloneFrom(n2));
                ops.push(Op::ConvertTo(n2));
            }
            for i in 0..n {
                ops.push(Op::Flip(i, false));
                ops.push(Op::Flip(i, true));
                ops.push(Op::Cofactor0(i));
                ops.push(Op::Cofactor1(i));
                ops.push(Op::CofactorRoundTrip(i));
                ops.push(Op::FromCofactors(i));
                for j in 0..n {
                    ops.push(Op::Swap(i, j, false));
                    ops.push(Op::Swap(i, j, true));
                }
                if i + 1 < n {
                    ops.push(Op::SwapAdjacent(i, false));
                    ops.push(Op::SwapAdjacent(i, true));
                }
            }
            for m in 0..size {
                ops.push(Op::SetBit(m));
                ops.push(Op::UnsetBit(m));
            }
            let stride = if n == 3 { t.pick(5, 1) } else { 1 };
            let mut x = 0u64;
            while x < count {
                for op in &ops {
                    if !sc.mine() {
                        continue;
                    }
                    let a = Tt::from_words(n, vec![x]);
                    let b = Tt::from_words(n, vec![x.wrapping_mul(0x9e37_79b9).wrapping_add(0x55) ]);
                    let case = Case {
                        fam,
                        h: History {
                            n,
                            init: vec![a.clone(), b, a.not(), Tt::zero(n)],
                            steps: vec![Step { op: op.clone(), a: 0, b: 1, dst: 3 }],
                        },
                    };
                    if !f(case) {
                        return;
                    }
                }
                x += stride;
            }
        }
    }
}

/// constructors with every argument, all n, both families (finite, complete in both tiers)
fn enumerate_ctors(_t: Tier, shard: usize, nshards: usize, f: &mut dyn FnMut(Case) -> bool) {
    let mut sc = ShardCounter::new(shard, nshards);
    for fam in [Fam::Dyn, Fam::Static] {
        for n in 0..=fam.max_n() {
            let mut ops = vec![Op::Zero, Op::One, Op::Parity, Op::Majority, Op::Default];
            for k in (0..=n + 2).chain([63, 64, 65, usize::MAX]) {
                ops.push(Op::Threshold(k));
                ops.push(Op::Equals(k));
            }
            for i in 0..n {
                ops.push(Op::NthVar(i));
            }
            for c in [0usize, !0, 1, 2, 0x5555_5555_5555_5555, 0xaaaa_aaaa_aaaa_aaaa, 1 << 63, 0x8000_0000_0000_0001] {
                ops.push(Op::Symmetric(c));
            }
            for k in 0..std::cmp::min(if n >= 3 { 64 } else { 1usize << (1usize << n) }, 64) {
                ops.push(Op::AllFunctionsNth(k));
            }
            if n <= 3 {
                for kind in 0..6u8 {
                    ops.push(Op::AllFunctionsConsume(kind));
                }
                // at and beyond the end of the enumeration: one, two, four times the function space
                let space = 1usize << (1usize << n);
                for k in [space - 1, space, space + 1, 2 * space - 1, 2 * space, 2 * space + 1, 3 * space, 4 * space, 4 * space + 1, 1024, 1025] {
                    ops.push(Op::AllFunctionsNth(k));
                }
            }
            for op in ops {
                if !sc.mine() {
                    continue;
                }
                let z = Tt::zero(n);
                let case = Case {
                    fam,
                    h: History { n, init: vec![z.clone(), z.clone(), Tt::one(n), z], steps: vec![Step { op, a: 0, b: 1, dst: 3 }] },
                };
                if !f(case) {
                    return;
                }
            }
        }
    }
}

fn strategy_none(_t: Tier) -> BoxedStrategy<Case> {
    strategy_steps(Tier::Quick)
}

pub fn def() -> PropDef {
    PropDef {
        id: "C02",
        rule: "cases = (family, history): a pool of 4 well-formed generated tables of one size n in 0..=12 and a sequence of public API calls with in-range arguments (constructors, from_blocks(well-formed), from_hex_string(any string), operators in all forms, flip/swap/cofactors/from_cofactors, bit setters, canonizations (n<=6), hooked successor, random(), clone_from into a fresh table of another size, Lut -> LutK::try_from for every K (an Ok result must be well formed whatever its size), conversions from Sop/Esop/Soes, round trips print->parse, Lut<->LutN, cofactors->from_cofactors, double flip, x^y^y) writing into slots. After every step the written slot must have exactly max(1,2^n/64) blocks and no bit >= 2^n, and ==, !=, cmp, partial_cmp, Hash (DefaultHasher) must agree with equality of the functions read through value(), against every other slot and against a from_blocks twin of the same function; at the end HashSet/BTreeSet sizes equal the number of distinct functions and (Lut) tables of different n never compare equal. Sub-check `steps`: histories of <=2 steps (inductive step from arbitrary well-formed tables) + exhaustive all tables n<=3 x all unary operations/arguments; `ctors`: every constructor argument for every n; `histories`: sequences up to 40 (quick) / 120 (thorough) steps. Non-trivial = a non-constant initial table and >=1 written slot, and for long histories two slots holding the same function reached by different routes.",
        assumptions: vec![
            "value() is the functional observation; a step that panics ends the history without a verdict here (panics are C17/C04/C11 business)",
            "from_blocks is only given well-formed blocks (the model masks)",
            "what an operation computes is not judged here, only that representation and function views agree",
        ],
        subs: vec![
            Box::new(Sub {
                name: "steps",
                rule: "1-2 step histories from arbitrary well-formed tables",
                strategy: strategy_steps,
                cases: (300_000, 3_000_000),
                exhaustive: Some(enumerate),
                exhaustive_note: "all tables of n<=2 and every 5th (quick) / all (thorough) of n=3 x every unary op and argument, both families",
                run,
            }),
            Box::new(Sub {
                name: "ctors",
                rule: "every named constructor with every argument (k in 0..=n+2 and 63,64,65,usize::MAX), all n, both families",
                strategy: strategy_none,
                cases: (0, 0),
                exhaustive: Some(enumerate_ctors),
                exhaustive_note: "complete enumeration of constructor arguments for n in 0..=12 (LutN) / 0..=14 (Lut)",
                run,
            }),
            Box::new(Sub {
                name: "histories",
                rule: "long histories",
                strategy: strategy_hist,
                cases: (40_000, 600_000),
                exhaustive: None,
                exhaustive_note: "",
                run,
            }),
        ],
    }
}
