//! Bit-vector reference model of a truth table.
//!
//! Everything here is written from the *definitions* in the property statements, one
//! assignment at a time, and shares no code with volute. Bit `m` of the table is f(m);
//! words are little-endian u64, unused high bits of word 0 are always zero (the model
//! masks on construction).

use serde::{Deserialize, Serialize};
use std::cmp::Ordering;

#[derive(Clone, Debug, PartialEq, Eq, Hash, Serialize, Deserialize)]
pub struct Tt {
    pub n: usize,
    pub w: Vec<u64>,
}

pub fn words_for(n: usize) -> usize {
    if n <= 6 {
        1
    } else {
        1usize << (n - 6)
    }
}

pub fn mask_for(n: usize) -> u64 {
    if n >= 6 {
        !0u64
    } else {
        (1u64 << (1u32 << n)) - 1
    }
}

impl Tt {
    pub fn zero(n: usize) -> Tt {
        Tt {
            n,
            w: vec![0; words_for(n)],
        }
    }

    pub fn one(n: usize) -> Tt {
        Tt::from_fn(n, |_| true)
    }

    /// Build from raw words: resized to the right word count and masked.
    pub fn from_words(n: usize, mut w: Vec<u64>) -> Tt {
        w.resize(words_for(n), 0);
        let k = w.len();
        if k == 1 {
            w[0] &= mask_for(n);
        }
        Tt { n, w }
    }

    pub fn from_fn<F: FnMut(usize) -> bool>(n: usize, mut f: F) -> Tt {
        let mut t = Tt::zero(n);
        for m in 0..(1usize << n) {
            if f(m) {
                t.w[m >> 6] |= 1u64 << (m & 63);
            }
        }
        t
    }

    pub fn size(&self) -> usize {
        1usize << self.n
    }

    pub fn get(&self, m: usize) -> bool {
        debug_assert!(m < self.size());
        (self.w[m >> 6] >> (m & 63)) & 1 != 0
    }

    pub fn set(&mut self, m: usize, b: bool) {
        if b {
            self.w[m >> 6] |= 1u64 << (m & 63);
        } else {
            self.w[m >> 6] &= !(1u64 << (m & 63));
        }
    }

    pub fn count_ones(&self) -> usize {
        self.w.iter().map(|x| x.count_ones() as usize).sum()
    }

    pub fn is_zero(&self) -> bool {
        self.w.iter().all(|x| *x == 0)
    }

    pub fn is_one(&self) -> bool {
        self.count_ones() == self.size()
    }

    pub fn is_const(&self) -> bool {
        self.is_zero() || self.is_one()
    }

    // ---- pointwise operators, by definition -------------------------------------------------

    pub fn not(&self) -> Tt {
        Tt::from_fn(self.n, |m| !self.get(m))
    }
    pub fn and(&self, o: &Tt) -> Tt {
        assert_eq!(self.n, o.n);
        Tt::from_fn(self.n, |m| self.get(m) & o.get(m))
    }
    pub fn or(&self, o: &Tt) -> Tt {
        assert_eq!(self.n, o.n);
        Tt::from_fn(self.n, |m| self.get(m) | o.get(m))
    }
    pub fn xor(&self, o: &Tt) -> Tt {
        assert_eq!(self.n, o.n);
        Tt::from_fn(self.n, |m| self.get(m) ^ o.get(m))
    }

    // ---- variable transforms, by definition --------------------------------------------------

    /// g(x) = f(x with bit i complemented)
    pub fn flip(&self, i: usize) -> Tt {
        assert!(i < self.n);
        Tt::from_fn(self.n, |m| self.get(m ^ (1 << i)))
    }

    /// g(x) = f(x with bits i and j exchanged)
    pub fn swap(&self, i: usize, j: usize) -> Tt {
        assert!(i < self.n && j < self.n);
        Tt::from_fn(self.n, |m| self.get(exchange_bits(m, i, j)))
    }

    /// f restricted to x_i = b, still as an n-variable function (independent of x_i)
    pub fn cofactor(&self, i: usize, b: bool) -> Tt {
        assert!(i < self.n);
        Tt::from_fn(self.n, |m| {
            let mm = if b { m | (1 << i) } else { m & !(1 << i) };
            self.get(mm)
        })
    }

    /// x_i ? c1(x) : c0(x)
    pub fn from_cofactors(c0: &Tt, c1: &Tt, i: usize) -> Tt {
        assert_eq!(c0.n, c1.n);
        assert!(i < c0.n);
        Tt::from_fn(c0.n, |m| {
            if (m >> i) & 1 != 0 {
                c1.get(m)
            } else {
                c0.get(m)
            }
        })
    }

    pub fn depends_on(&self, i: usize) -> bool {
        (0..self.size()).any(|m| self.get(m) != self.get(m ^ (1 << i)))
    }

    pub fn support(&self) -> Vec<usize> {
        (0..self.n).filter(|i| self.depends_on(*i)).collect()
    }

    /// c0 <= c1 pointwise w.r.t. variable i
    pub fn pointwise_le(&self, o: &Tt) -> bool {
        (0..self.size()).all(|m| !self.get(m) | o.get(m))
    }

    // ---- numeric view ------------------------------------------------------------------------

    /// Compare as 2^n-bit unsigned integers, the bit of the all-ones assignment being the most
    /// significant; tables of different n are ordered by n first.
    pub fn cmp_num(&self, o: &Tt) -> Ordering {
        if self.n != o.n {
            return self.n.cmp(&o.n);
        }
        let mut m = self.size();
        while m > 0 {
            m -= 1;
            let a = self.get(m);
            let b = o.get(m);
            if a != b {
                return if a { Ordering::Greater } else { Ordering::Less };
            }
        }
        Ordering::Equal
    }

    /// Word-accelerated version of `cmp_num` for the heavy canonization oracle; checked against
    /// `cmp_num` in the unit tests of this crate.
    pub fn cmp_words(a: &[u64], b: &[u64]) -> Ordering {
        let mut i = a.len();
        while i > 0 {
            i -= 1;
            if a[i] != b[i] {
                return a[i].cmp(&b[i]);
            }
        }
        Ordering::Equal
    }

    /// Numeric successor modulo 2^(2^n); the flag says whether it wrapped to zero.
    pub fn succ(&self) -> (Tt, bool) {
        let mut t = self.clone();
        for m in 0..self.size() {
            if t.get(m) {
                t.set(m, false);
            } else {
                t.set(m, true);
                return (t, false);
            }
        }
        (t, true)
    }

    // ---- text --------------------------------------------------------------------------------

    pub fn hex_width(n: usize) -> usize {
        std::cmp::max(1, (1usize << n) / 4)
    }

    /// Most significant digit first, width max(1, 2^n/4), lower case.
    pub fn to_hex(&self) -> String {
        let width = Tt::hex_width(self.n);
        let mut s = String::with_capacity(width);
        for d in (0..width).rev() {
            let mut v = 0u32;
            for b in 0..4 {
                let m = d * 4 + b;
                if m < self.size() && self.get(m) {
                    v |= 1 << b;
                }
            }
            s.push(std::char::from_digit(v, 16).unwrap());
        }
        s
    }

    /// Most significant bit first, width 2^n.
    pub fn to_bin(&self) -> String {
        let mut s = String::with_capacity(self.size());
        for m in (0..self.size()).rev() {
            s.push(if self.get(m) { '1' } else { '0' });
        }
        s
    }

    /// Parse exactly `hex_width` lower- or upper-case hex digits whose value fits in 2^n bits.
    pub fn from_hex(n: usize, s: &str) -> Option<Tt> {
        let width = Tt::hex_width(n);
        let b = s.as_bytes();
        if b.len() != width {
            return None;
        }
        let mut t = Tt::zero(n);
        for (pos, ch) in b.iter().enumerate() {
            let v = (*ch as char).to_digit(16)?;
            let d = width - 1 - pos;
            for k in 0..4 {
                if (v >> k) & 1 != 0 {
                    let m = d * 4 + k;
                    if m >= t.size() {
                        return None;
                    }
                    t.set(m, true);
                }
            }
        }
        Some(t)
    }

    // ---- misc --------------------------------------------------------------------------------

    /// Coarse density class used for labelling generated cases.
    pub fn class(&self) -> &'static str {
        let c = self.count_ones();
        let s = self.size();
        if c == 0 || c == s {
            "const"
        } else if c <= 4 || s - c <= 4 {
            "sparse"
        } else if self.w.len() >= 2 && self.w.iter().all(|x| *x == 0 || *x == !0) {
            "wordconst"
        } else {
            "dense"
        }
    }

    pub fn short(&self) -> String {
        format!("Lut{}({})", self.n, self.to_hex())
    }
}

/// m with bits i and j exchanged
pub fn exchange_bits(m: usize, i: usize, j: usize) -> usize {
    let bi = (m >> i) & 1;
    let bj = (m >> j) & 1;
    let mut r = m & !(1 << i) & !(1 << j);
    r |= bi << j;
    r |= bj << i;
    r
}

#[cfg(test)]
mod tests {
    use super::*;

    #[test]
    fn hex_roundtrip_and_order() {
        for n in 0..=8 {
            let t = Tt::from_fn(n, |m| (m * 7 + 3) % 5 < 2);
            assert_eq!(Tt::from_hex(n, &t.to_hex()).unwrap(), t);
            let u = t.not();
            assert_eq!(
                t.cmp_num(&u),
                Tt::cmp_words(&t.w, &u.w),
                "cmp agreement n={}",
                n
            );
            assert_eq!(t.to_hex().cmp(&u.to_hex()), t.cmp_num(&u));
        }
    }

    #[test]
    fn succ_carries() {
        let t = Tt::from_words(7, vec![!0, 5]);
        let (s, w) = t.succ();
        assert!(!w);
        assert_eq!(s.w, vec![0, 6]);
        let (s, w) = Tt::one(3).succ();
        assert!(w);
        assert!(s.is_zero());
    }
}
