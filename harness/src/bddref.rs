//! Textbook reduced ordered BDD with complemented edges and a unique table, owned by the
//! harness. Variable n-1 is at the root, variable 0 at the bottom. Shares no code with volute.

use std::collections::{HashMap, HashSet};

use crate::model::Tt;

/// edge = (node id << 1) | complement bit; node 0 is the single terminal (constant one),
/// so edge 0 = ONE and edge 1 = ZERO
type Edge = u32;
const ONE: Edge = 0;

#[derive(Default)]
pub struct Bdd {
    /// nodes[id] = (var, lo edge, hi edge); index 0 unused (terminal)
    nodes: Vec<(u32, Edge, Edge)>,
    unique: HashMap<(u32, Edge, Edge), u32>,
}

impl Bdd {
    pub fn new() -> Bdd {
        Bdd {
            nodes: vec![(u32::MAX, 0, 0)],
            unique: HashMap::new(),
        }
    }

    fn mk(&mut self, var: u32, lo: Edge, hi: Edge) -> Edge {
        if lo == hi {
            return lo;
        }
        // canonical form: the then-edge is regular; otherwise complement both and the result
        let (lo, hi, neg) = if hi & 1 != 0 { (lo ^ 1, hi ^ 1, 1) } else { (lo, hi, 0) };
        let id = match self.unique.get(&(var, lo, hi)) {
            Some(id) => *id,
            None => {
                let id = self.nodes.len() as u32;
                self.nodes.push((var, lo, hi));
                self.unique.insert((var, lo, hi), id);
                id
            }
        };
        (id << 1) | neg
    }

    /// build the sub-function of f over variables 0..k at assignment offset `off`
    fn build(&mut self, f: &Tt, k: usize, off: usize) -> Edge {
        if k == 0 {
            return if f.get(off) { ONE } else { ONE ^ 1 };
        }
        let lo = self.build(f, k - 1, off);
        let hi = self.build(f, k - 1, off + (1 << (k - 1)));
        self.mk((k - 1) as u32, lo, hi)
    }

    pub fn add(&mut self, f: &Tt) -> Edge {
        self.build(f, f.n, 0)
    }

    /// Internal nodes reachable from the roots, not counting nodes whose two children are the
    /// constants (those denote a single literal x_i or its complement).
    pub fn count(&self, roots: &[Edge]) -> usize {
        let mut seen: HashSet<u32> = HashSet::new();
        let mut stack: Vec<u32> = roots.iter().map(|e| e >> 1).collect();
        let mut count = 0;
        while let Some(id) = stack.pop() {
            if id == 0 || !seen.insert(id) {
                continue;
            }
            let (_, lo, hi) = self.nodes[id as usize];
            let literal = (lo >> 1) == 0 && (hi >> 1) == 0;
            if !literal {
                count += 1;
            }
            stack.push(lo >> 1);
            stack.push(hi >> 1);
        }
        count
    }
}

/// node count of the shared BDD of a list of functions
pub fn shared_size(fs: &[Tt]) -> usize {
    let mut b = Bdd::new();
    let roots: Vec<Edge> = fs.iter().map(|f| b.add(f)).collect();
    b.count(&roots)
}

#[cfg(test)]
mod tests {
    use super::*;
    #[test]
    fn small() {
        let n = 3;
        let x = |i: usize| Tt::from_fn(n, move |m| (m >> i) & 1 != 0);
        assert_eq!(shared_size(&[x(0)]), 0);
        assert_eq!(shared_size(&[x(2).not()]), 0);
        assert_eq!(shared_size(&[x(0).and(&x(1))]), 1);
        assert_eq!(shared_size(&[x(0).and(&x(1)).and(&x(2))]), 2);
        assert_eq!(shared_size(&[x(0).xor(&x(1))]), 1);
        // mux with the select on top: 1 node; select at the bottom: 3
        assert_eq!(shared_size(&[x(2).and(&x(1)).or(&x(2).not().and(&x(0)))]), 1);
        assert_eq!(shared_size(&[x(0).and(&x(2)).or(&x(0).not().and(&x(1)))]), 3);
        assert_eq!(shared_size(&[]), 0);
    }
}
