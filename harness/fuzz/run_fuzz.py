#!/usr/bin/env python3
"""libFuzzer stage of the thorough tier (called by /verif/check).

  run_fuzz.py <Cxx> <seed>     campaigns for the targets of that property; prints VIOLATION /
                               INCONCLUSIVE lines and one `FUZZ-EVIDENCE {json}` line
  run_fuzz.py --build          build all targets (cargo +nightly fuzz build -s none)
  run_fuzz.py --replay <file>  (reserved)

A libFuzzer crash is never reported directly: the input is decoded into an ordinary replay file
(`vcheck decode`) and re-judged by the release and the checked vcheck binaries; only a failure
reproduced there becomes a VIOLATION."""
import glob, hashlib, json, os, re, shutil, subprocess, sys, time

HERE = os.path.dirname(os.path.abspath(__file__))
HARNESS = os.path.dirname(HERE)
ROOT = os.path.dirname(HARNESS)
REPLAYS = os.path.join(ROOT, "replays")
TARGETS = {"C02": ["hist"], "C03": ["transforms"], "C04": ["canon"], "C05": ["witness"], "C06": ["decomp"], "C07": ["bdd"], "C10": ["histdiff"], "C09": ["hex"], "C12": ["cubeops"], "C14": ["sopexpr"], "C16": ["sopdisplay"]}
RUNS = {"transforms": 4_000_000, "canon": 1_500_000, "witness": 1_500_000, "decomp": 6_000_000, "bdd": 4_000_000, "hist": 4_000_000, "histdiff": 3_000_000, "hex": 12_000_000, "cubeops": 9_000_000, "sopexpr": 3_000_000, "sopdisplay": 3_000_000}
PROCS = 8
ENV = dict(os.environ, CARGO_NET_OFFLINE="true")

def build(targets=None):
    cmd = ["cargo", "+nightly", "fuzz", "build", "-s", "none"]
    if os.environ.get("VERIF_REPO_OVERRIDE"):
        cmd = ["cargo", "+nightly", "--config", 'paths=["%s"]' % os.environ["VERIF_REPO_OVERRIDE"], "fuzz", "build", "-s", "none"]
    ok = True
    for t in (targets or [None]):
        r = subprocess.run(cmd + ([t] if t else []), cwd=HARNESS, env=ENV, stdout=subprocess.PIPE, stderr=subprocess.STDOUT, text=True)
        if r.returncode != 0:
            print(r.stdout[-3000:])
            ok = False
    return ok

def binary(t):
    c = glob.glob(os.path.join(HERE, "target", "*", "release", t))
    return c[0] if c else None

def campaign(prop, t, seed):
    work = os.path.join(HERE, "work", "%s-%d" % (t, os.getpid()))
    shutil.rmtree(work, ignore_errors=True)
    procs = []
    runs = int(RUNS[t] * float(os.environ.get("VERIF_SCALE", "1")) / PROCS)
    t0 = time.time()
    for i in range(PROCS):
        corp = os.path.join(work, "corpus%d" % i)
        art = os.path.join(work, "art%d" % i) + os.sep
        os.makedirs(corp); os.makedirs(art)
        for f in glob.glob(os.path.join(HERE, "seeds", t, "*")):
            shutil.copy(f, corp)
        s = (seed * 1000 + i) % (2**31 - 1) or 1
        cmd = [binary(t), corp, "-runs=%d" % runs, "-seed=%d" % s, "-len_control=0", "-max_len=2048", "-timeout=60",
               "-artifact_prefix=" + art, "-print_final_stats=1", "-verbosity=1"]
        # output goes to a file: with pipes, every process but the one being waited for would block as
        # soon as its pipe buffer is full, and the eight campaigns would run one after the other
        logf = open(os.path.join(work, "log%d.txt" % i), "w")
        procs.append((i, subprocess.Popen(cmd, cwd=work, env=ENV, stdout=logf, stderr=subprocess.STDOUT, text=True), art, corp, logf))
    total_execs = 0; units = 0; cov = 0; crashes = []
    deadline = time.time() + 3 * 3600
    for i, p, art, corp, logf in procs:
        try:
            p.wait(timeout=max(1, deadline - time.time()))
        except subprocess.TimeoutExpired:
            p.kill(); p.wait()
        logf.close()
        out = open(os.path.join(work, "log%d.txt" % i), errors="replace").read()
        m = re.search(r"stat::number_of_executed_units:\s*(\d+)", out or "")
        if m: total_execs += int(m.group(1))
        for m in re.finditer(r"cov: (\d+)", out or ""):
            cov = max(cov, int(m.group(1)))
        units += len(os.listdir(corp))
        for a in glob.glob(art + "*"):
            crashes.append((a, [l for l in (out or "").splitlines() if "FUZZ-VIOLATION" in l][:1]))
    code = 0
    lines = []
    for a, why in crashes:
        h = hashlib.sha1(open(a, "rb").read()).hexdigest()[:10]
        os.makedirs(REPLAYS, exist_ok=True)
        rp = os.path.join(REPLAYS, "fuzz-%s-%s.json" % (t, h))
        confirmed = False
        for prof in ["release", "checked"]:
            vb = os.path.join(HARNESS, "target", prof, "vcheck")
            r = subprocess.run([vb, "decode", t, a, "--out", rp], env=ENV, stdout=subprocess.PIPE, stderr=subprocess.STDOUT, text=True)
            for l in r.stdout.splitlines():
                if l.startswith("DETAIL"):
                    lines.append(l)
            if r.returncode == 1:
                confirmed = True
                break
        if confirmed:
            lines.append("VIOLATION property=%s replay=%s" % (prop, rp))
            code = 1
        else:
            keep = os.path.join(REPLAYS, "fuzz-%s-%s.bin" % (t, h))
            shutil.copy(a, keep)
            lines.append("INCONCLUSIVE property=%s fuzz target %s stopped on input %s which vcheck does not reproduce (%s)" % (prop, t, keep, "; ".join(why)))
            if code == 0:
                code = 2
    ev = dict(target=t, executions=total_execs, processes=PROCS, runs_requested=runs * PROCS, corpus_units_at_end=units, edge_coverage=cov,
              seeds=len(glob.glob(os.path.join(HERE, "seeds", t, "*"))), crashes=len(crashes), wall_s=round(time.time() - t0, 1))
    shutil.rmtree(work, ignore_errors=True)
    return code, lines, ev

def main():
    if len(sys.argv) >= 2 and sys.argv[1] == "--build":
        return 0 if build() else 2
    if len(sys.argv) < 3:
        print(__doc__); return 2
    prop, seed = sys.argv[1], int(sys.argv[2])
    if prop not in TARGETS:
        return 0
    if not build(TARGETS[prop]):
        print("INCONCLUSIVE property=%s fuzz build failed" % prop); return 2
    worst = 0; evs = []
    for t in TARGETS[prop]:
        code, lines, ev = campaign(prop, t, seed)
        for l in lines:
            print(l)
        evs.append(ev)
        if code == 1: worst = 1
        elif code == 2 and worst == 0: worst = 2
    print("FUZZ-EVIDENCE " + json.dumps(dict(engine="libFuzzer via cargo-fuzz (nightly, -s none, debug assertions on); every stop is re-judged by vcheck in both profiles", campaigns=evs)))
    return worst

if __name__ == "__main__":
    sys.exit(main())
