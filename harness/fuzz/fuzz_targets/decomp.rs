#![no_main]
//! libFuzzer target `decomp`: bytes are decoded into the same Case type as the proptest check and
//! judged by the same oracle; a violation aborts (the artifact is then converted to a replay
//! file and re-judged by vcheck in both build profiles before anything is reported).
use libfuzzer_sys::fuzz_target;

fuzz_target!(|data: &[u8]| {
    static INIT: std::sync::Once = std::sync::Once::new();
    INIT.call_once(vharness::engine::install_panic_hook);
    if let Some((prop, sub, _case, verdict)) = vharness::fuzzdec::judge("decomp", data) {
        if let Err(f) = verdict {
            if !f.sig.starts_with("inconclusive:") {
                eprintln!("FUZZ-VIOLATION property={} subcheck={} sig={} :: {}", prop, sub, f.sig, f.msg);
                std::process::abort();
            }
        }
    }
});
